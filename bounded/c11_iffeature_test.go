package meta

// Bounded check for C11 (labelled bounded, never counted as proved): for EVERY if-feature expression of at most
// maxTokens tokens over the alphabet {a, b, c, not, and, or, (, )} that is well formed under the RFC 7950 grammar
//
//	if-feature-expr   = if-feature-term   [ "or"  if-feature-expr ]
//	if-feature-term   = if-feature-factor [ "and" if-feature-term ]
//	if-feature-factor = "not" if-feature-factor / "(" if-feature-expr ")" / identifier
//
// and for every one of the 8 enabled-feature sets over {a, b, c}, the real evaluator (IfFeature.Evaluate) must return
// the value the grammar gives (not > and > or), without an error. Every token sequence that is NOT well formed must be
// rejected with an error. This file is injected into package meta with `go test -overlay`; it is not part of /repo.

import (
	"fmt"
	"os"
	"strconv"
	"strings"
	"testing"
)

var alphabet = []string{"a", "b", "c", "not", "and", "or", "(", ")"}

type refParser struct {
	toks []string
	pos  int
	on   map[string]bool
	bad  bool
}

func (p *refParser) peek() string {
	if p.pos < len(p.toks) {
		return p.toks[p.pos]
	}
	return ""
}

func (p *refParser) expr() bool {
	v := p.term()
	if p.peek() == "or" {
		p.pos++
		w := p.expr()
		return v || w
	}
	return v
}

func (p *refParser) term() bool {
	v := p.factor()
	if p.peek() == "and" {
		p.pos++
		w := p.term()
		return v && w
	}
	return v
}

func (p *refParser) factor() bool {
	switch t := p.peek(); t {
	case "not":
		p.pos++
		return !p.factor()
	case "(":
		p.pos++
		v := p.expr()
		if p.peek() != ")" {
			p.bad = true
			return false
		}
		p.pos++
		return v
	case "a", "b", "c":
		p.pos++
		return p.on[t]
	default:
		p.bad = true
		return false
	}
}

// reference: (value, wellFormed)
func reference(toks []string, on map[string]bool) (bool, bool) {
	p := &refParser{toks: toks, on: on}
	v := p.expr()
	if p.bad || p.pos != len(toks) {
		return false, false
	}
	return v, true
}

func render(toks []string) string {
	// tokens separated by one blank, except that parentheses may touch their neighbours (both spellings are legal;
	// the touching one is the harder one for a hand-written tokenizer)
	var b strings.Builder
	for i, t := range toks {
		if i > 0 && t != ")" && toks[i-1] != "(" {
			b.WriteByte(' ')
		}
		b.WriteString(t)
	}
	return b.String()
}

func TestGovcBoundedIfFeature(t *testing.T) {
	maxTokens := 6
	if s := os.Getenv("GOVC_C11_TOKENS"); s != "" {
		maxTokens, _ = strconv.Atoi(s)
	}
	checkMalformed := os.Getenv("GOVC_C11_MALFORMED") != "0"
	wellFormed, malformed, failures := 0, 0, 0
	report := func(format string, args ...interface{}) {
		failures++
		if failures <= 20 {
			t.Errorf(format, args...)
		}
	}
	var toks []string
	var rec func()
	rec = func() {
		if len(toks) > 0 {
			_, wf := reference(toks, map[string]bool{})
			expr := render(toks)
			if wf {
				wellFormed++
				for mask := 0; mask < 8; mask++ {
					on := map[string]bool{"a": mask&1 != 0, "b": mask&2 != 0, "c": mask&4 != 0}
					enabled := map[string]*Feature{}
					for f, is := range on {
						if is {
							enabled[f] = &Feature{ident: f}
						}
					}
					want, _ := reference(toks, on)
					got, err := (&IfFeature{expr: expr}).Evaluate(enabled)
					if err != nil {
						report("GOVC-FAIL wellformed expr=%q enabled=%v: error %v, want %v", expr, on, err, want)
					} else if got != want {
						report("GOVC-FAIL wellformed expr=%q enabled=%v: got %v, want %v", expr, on, got, want)
					}
				}
			} else if checkMalformed {
				malformed++
				if _, err := (&IfFeature{expr: expr}).Evaluate(map[string]*Feature{"a": {ident: "a"}}); err == nil {
					report("GOVC-FAIL malformed expr=%q: accepted without an error", expr)
				}
			}
		}
		if len(toks) == maxTokens {
			return
		}
		for _, a := range alphabet {
			toks = append(toks, a)
			rec()
			toks = toks[:len(toks)-1]
		}
	}
	rec()
	fmt.Printf("GOVC-BOUNDED tokens<=%d wellformed=%d (x8 feature sets) malformed=%d failures=%d\n", maxTokens, wellFormed, malformed, failures)
}
