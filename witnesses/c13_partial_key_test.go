package nodeutil_test

import (
	"strings"
	"testing"

	"github.com/freeconf/yang/node"
	"github.com/freeconf/yang/nodeutil"
	"github.com/freeconf/yang/parser"
)

// C13: any path string given to Find yields a normal result or an error, never a panic. Before the fix a path that
// gives fewer key values than the list has key leafs ("l=x" for key "a b") was turned into a key tuple padded with nil
// (node.NewValuesByString), and every node implementation that looks a row up by key dereferenced the nil:
// the JSON reader (jsonKeyMatches), the XML reader (XmlNode.Next) and Reflect.
func TestWitnessPartialKey(t *testing.T) {
	m, err := parser.LoadModuleFromString(nil, `module m { namespace "m"; prefix "m"; revision 0;
		list l { key "a b"; leaf a { type string; } leaf b { type string; } leaf v { type string; } } }`)
	if err != nil {
		t.Fatal(err)
	}
	jn, err := nodeutil.ReadJSON(`{"l":[{"a":"x","b":"y","v":"1"}]}`)
	if err != nil {
		t.Fatal(err)
	}
	xn, err := nodeutil.ReadXMLDoc(strings.NewReader(`<m xmlns="m"><l><a>x</a><b>y</b><v>1</v></l></m>`))
	if err != nil {
		t.Fatal(err)
	}
	data := map[string]interface{}{"l": []map[string]interface{}{{"a": "x", "b": "y", "v": "1"}}}
	for name, n := range map[string]node.Node{"json": jn, "xml": xn, "reflect": nodeutil.ReflectChild(data)} {
		func() {
			defer func() {
				if r := recover(); r != nil {
					t.Errorf("%s: Find(\"l=x\") panics: %v", name, r)
				}
			}()
			sel, err := node.NewBrowser(m, n).Root().Find("l=x")
			if err == nil && sel != nil {
				t.Errorf("%s: a partial key selected a row", name)
			}
		}()
	}
	// the complete key still works
	if sel, err := node.NewBrowser(m, jn).Root().Find("l=x,y"); err != nil || sel == nil {
		t.Errorf("complete key: %v %v", sel, err)
	}
}
