package parser_test

import (
	"testing"

	"github.com/freeconf/yang/meta"
	"github.com/freeconf/yang/parser"
)

// A case is a guardable statement (RFC 7950 7.9.2): with its feature off it must not be in the compiled choice.
// Before the fix the resolver never evaluated an if-feature placed on a case.
func TestIfFeatureOnCase(t *testing.T) {
	m, err := parser.LoadModuleFromStringWithOptions(nil, `module m { namespace "m"; prefix "m"; revision 0;
		feature a;
		container c {
		  choice ch {
		    case one { if-feature a; leaf l1 { type string; } }
		    case two { leaf l2 { type string; } }
		  }
		}
	}`, parser.Options{Features: meta.FeaturesOn([]string{})})
	if err != nil {
		t.Fatal(err)
	}
	ch := meta.Find(m, "c").(*meta.Container).DataDefinitions()[0].(*meta.Choice)
	if _, there := ch.Cases()["one"]; there {
		t.Error("case one is guarded by feature a, which is off, but it is in the compiled schema")
	}
	if _, there := ch.Cases()["two"]; !there {
		t.Error("case two must stay")
	}
}
