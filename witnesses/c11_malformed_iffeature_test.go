package parser_test

import (
	"testing"

	"github.com/freeconf/yang/parser"
)

// A malformed if-feature expression is an error (RFC 7950 7.20.2). Before the fix the evaluator accepted unbalanced
// parentheses, missing operands and terms side by side and loaded the module.
func TestMalformedIfFeatureIsAnError(t *testing.T) {
	for _, expr := range []string{"a)", "(a", "a b", "a or and b", "a (b)", "a a a not and and"} {
		_, err := parser.LoadModuleFromString(nil, `module m { namespace "m"; prefix "m"; revision 0;
			feature a; feature b;
			leaf x { if-feature "`+expr+`"; type string; } }`)
		if err == nil {
			t.Errorf("if-feature %q: module loaded, want a syntax error", expr)
		}
	}
	if _, err := parser.LoadModuleFromString(nil, `module m { namespace "m"; prefix "m"; revision 0;
		feature a; feature b;
		leaf x { if-feature "not (a and b) or a"; type string; } }`); err != nil {
		t.Errorf("well formed expression rejected: %v", err)
	}
}
