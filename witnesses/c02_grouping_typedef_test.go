package parser_test

import (
	"testing"

	"github.com/freeconf/yang/meta"
	"github.com/freeconf/yang/parser"
)

// The effective type of a leaf is the same for every place a grouping containing it is used: default and units of the
// typedef reach every copy, and enum values / bit positions are numbered as RFC 7950 says (a stated value is kept,
// otherwise one more than the highest so far).
func TestEffectiveTypeOfGroupingCopiesAndNumbering(t *testing.T) {
	m, err := parser.LoadModuleFromString(nil, `module m { namespace "m"; prefix "m"; revision 0;
		typedef td { type int32; default 7; units cm; }
		grouping g { leaf x { type td; } }
		container a { uses g; }
		container b { uses g; }
		leaf e { type enumeration { enum a { value 5; } enum b { value 2; } enum c; } }
		leaf z { type enumeration { enum p { value 3; } enum q { value 0; } enum r; } }
		leaf bt { type bits { bit a { position 5; } bit b { position 2; } bit c; } }
	}`)
	if err != nil {
		t.Fatal(err)
	}
	for _, cn := range []string{"a", "b"} {
		x := meta.Find(m, cn+"/x").(*meta.Leaf)
		if !x.HasDefault() || x.DefaultValue() != "7" || x.Units() != "cm" {
			t.Errorf("%s/x: default %v %v units %q; want 7 and cm from the typedef", cn, x.HasDefault(), x.DefaultValue(), x.Units())
		}
	}
	ids := func(name string) []int {
		var out []int
		for _, e := range meta.Find(m, name).(*meta.Leaf).Type().Enum() {
			out = append(out, e.Id)
		}
		return out
	}
	if got := ids("e"); len(got) != 3 || got[0] != 5 || got[1] != 2 || got[2] != 6 {
		t.Errorf("enum e values %v; want [5 2 6]", got)
	}
	if got := ids("z"); len(got) != 3 || got[0] != 3 || got[1] != 0 || got[2] != 4 {
		t.Errorf("enum z values %v; want [3 0 4]", got)
	}
	bits := meta.Find(m, "bt").(*meta.Leaf).Type().Bits()
	if len(bits) != 3 || bits[0].Position != 5 || bits[1].Position != 2 || bits[2].Position != 6 {
		t.Errorf("bit positions %d %d %d; want 5 2 6", bits[0].Position, bits[1].Position, bits[2].Position)
	}
}
