package node_test

import (
	"testing"

	"github.com/freeconf/yang/node"
	"github.com/freeconf/yang/nodeutil"
	"github.com/freeconf/yang/parser"
)

// A destination node that answers a New child request with (nil, nil) — "could not create" — must make
// InsertFrom return an error. Before the fix editor.node deferred toChild.Release() on the nil selection
// and the process crashed with a nil dereference instead.
func TestInsertNilChildIsErrorNotPanic(t *testing.T) {
	m, err := parser.LoadModuleFromString(nil, `module m { namespace "m"; prefix "m"; revision 0;
		container c { leaf x { type string; } } }`)
	if err != nil {
		t.Fatal(err)
	}
	src := &nodeutil.Basic{}
	src.OnChild = func(r node.ChildRequest) (node.Node, error) {
		return &nodeutil.Basic{OnField: func(r node.FieldRequest, hnd *node.ValueHandle) error { return nil }}, nil
	}
	dst := &nodeutil.Basic{}
	dst.OnChild = func(r node.ChildRequest) (node.Node, error) { return nil, nil }
	b := node.NewBrowser(m, dst)
	defer func() {
		if p := recover(); p != nil {
			t.Fatalf("panic instead of an error: %v", p)
		}
	}()
	if err := b.Root().InsertFrom(src); err == nil {
		t.Fatal("expected an error: the destination could not create the container")
	}
}
