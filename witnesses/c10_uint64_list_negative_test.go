package val_test

import (
	"testing"

	"github.com/freeconf/yang/val"
)

// C10: a negative number for an unsigned type is never silently turned into a different number. Before the fix a
// Go []int converted to a uint64 list was cast element by element (uint64(x[i])), so -1 became 18446744073709551615
// (found by the failing obligation val.toUInt64List#inv:L1.2; the scalar form and every other list form refuse).
func TestWitnessUInt64ListFromNegativeInt(t *testing.T) {
	v, err := val.Conv(val.FmtUInt64List, []int{1, -1})
	if err == nil {
		t.Fatalf("[]int{1,-1} converted to %v without an error", v.Value())
	}
	if v, err := val.Conv(val.FmtUInt64List, []int{1, 2}); err != nil || len(v.Value().([]uint64)) != 2 || v.Value().([]uint64)[1] != 2 {
		t.Fatalf("in-range conversion: %v %v", v, err)
	}
}
