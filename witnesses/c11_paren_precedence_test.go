package parser_test

import (
	"testing"

	"github.com/freeconf/yang/meta"
	"github.com/freeconf/yang/parser"
)

// "not (a or b) and c" is (not (a or b)) and c. Before the fix the closing parenthesis only ended the innermost
// sub-evaluation, so the evaluator computed not ((a or b) and c): with no feature enabled the leaf was present
// although c is off.
func TestParenthesisEndsItsOwnGroup(t *testing.T) {
	m, err := parser.LoadModuleFromStringWithOptions(nil, `module m { namespace "m"; prefix "m"; revision 0;
		feature a; feature b; feature c;
		leaf x { if-feature "not (a or b) and c"; type string; }
		leaf y { if-feature "not (a or b)"; type string; } }`, parser.Options{Features: meta.FeaturesOn([]string{})})
	if err != nil {
		t.Fatal(err)
	}
	if meta.Find(m, "y") == nil {
		t.Error("leaf y (not (a or b)) must be present when no feature is on")
	}
	if meta.Find(m, "x") != nil {
		t.Error("leaf x (not (a or b) and c) must be absent when c is off")
	}
}
