package parser_test

import (
	"testing"

	"github.com/freeconf/yang/meta"
	"github.com/freeconf/yang/parser"
)

func loadWithDeviation(t *testing.T, name, dev string) (m *meta.Module, err error) {
	defer func() {
		if p := recover(); p != nil {
			t.Errorf("%s: panic instead of an error: %v", name, p)
		}
	}()
	return parser.LoadModuleFromString(nil, `module m { namespace "m"; prefix "m"; revision 0;
		container c { leaf x { type string; units inches; default d; } leaf y { type string; } }
		rpc r { }
		`+dev+` }`)
}

// add / replace / delete change exactly the named property: a matching "delete units" removes the units (it used to
// be refused while a non-matching one was executed), "add must" adds the statement once (it was added twice), and a
// property the target cannot have is an error (it used to crash the loader).
func TestDeviationsChangeExactlyTheNamedProperty(t *testing.T) {
	m, err := loadWithDeviation(t, "delete units", `deviation /c/x { deviate delete { units inches; } }`)
	if err != nil || meta.Find(m, "c/x").(*meta.Leaf).Units() != "" {
		t.Errorf("delete units inches: err=%v", err)
	}
	if _, err := loadWithDeviation(t, "delete wrong units", `deviation /c/x { deviate delete { units feet; } }`); err == nil {
		t.Error("delete units feet on a leaf with units inches must be an error")
	}
	if _, err := loadWithDeviation(t, "delete wrong default", `deviation /c/x { deviate delete { default zzz; } }`); err == nil {
		t.Error("delete default zzz on a leaf with default d must be an error")
	}
	m, err = loadWithDeviation(t, "add must", `deviation /c/y { deviate add { must "b"; } }`)
	if err != nil || len(meta.Find(m, "c/y").(*meta.Leaf).Musts()) != 1 {
		t.Errorf("add must: err=%v, want exactly one must", err)
	}
	for name, dev := range map[string]string{
		"max-elements on a leaf": `deviation /c/y { deviate add { max-elements 3; } }`,
		"config on an rpc":       `deviation /r { deviate add { config false; } }`,
		"must on an rpc":         `deviation /r { deviate add { must "b"; } }`,
		"units on a container":   `deviation /c { deviate add { units x; } }`,
		"default on a container": `deviation /c { deviate replace { default x; } }`,
	} {
		if _, err := loadWithDeviation(t, name, dev); err == nil {
			t.Errorf("%s: accepted", name)
		}
	}
}
