package nodeutil_test

import (
	"testing"

	"github.com/freeconf/yang/node"
	"github.com/freeconf/yang/nodeutil"
	"github.com/freeconf/yang/parser"
)

// A list entry that lacks its key leaf (or has null there) is request content: upserting it into a map-backed
// reflection node must fail with an error. Before the fix Reflect.listMap dereferenced the nil key value.
func TestKeylessListEntryIsAnError(t *testing.T) {
	m, err := parser.LoadModuleFromString(nil, `module m { namespace "m"; prefix "m"; revision 0;
		list l { key k; leaf k { type string; } leaf v { type int32; } } }`)
	if err != nil {
		t.Fatal(err)
	}
	for _, js := range []string{`{"l":[{"v":1}]}`, `{"l":[{"k":null,"v":1}]}`, `{"l":[{}]}`} {
		func() {
			defer func() {
				if p := recover(); p != nil {
					t.Errorf("%s: panic instead of an error: %v", js, p)
				}
			}()
			b := node.NewBrowser(m, nodeutil.ReflectChild(map[string]interface{}{}))
			n, err := nodeutil.ReadJSON(js)
			if err != nil {
				return
			}
			if err := b.Root().UpsertFrom(n); err == nil {
				t.Errorf("%s: accepted", js)
			}
		}()
	}
}
