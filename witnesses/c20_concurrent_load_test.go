package parser_test

import (
	"sync"
	"testing"

	"github.com/freeconf/yang/parser"
)

// Run with -race: go test -race -run TestConcurrentLoadsShareNoState ./parser/
// Loading a module must not depend on or modify process-wide state. Before the fixes two concurrent loads raced on the
// package-level counter meta.uid (Builder.Uses) and on the shared anydata type object meta.anyType, whose format was
// compiled lazily by whichever load got there first.
func TestConcurrentLoadsShareNoState(t *testing.T) {
	const text = `module m { namespace "m"; prefix "m"; revision 0;
		grouping g { leaf x { type string; } anydata blob; }
		container a { uses g; } container b { uses g; } }`
	var wg sync.WaitGroup
	for i := 0; i < 8; i++ {
		wg.Add(1)
		go func() {
			defer wg.Done()
			for j := 0; j < 20; j++ {
				if _, err := parser.LoadModuleFromString(nil, text); err != nil {
					t.Error(err)
					return
				}
			}
		}()
	}
	wg.Wait()
}
