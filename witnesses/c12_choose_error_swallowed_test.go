package node_test

// Witness for known finding node.editor.clearOnDifferentChoiceCase#post:surface (C12):
// an error returned by the target node's Choose callback during an upsert into a choice is swallowed:
// the API call returns nil. The test FAILS while the defect is present.

import (
	"errors"
	"testing"

	"github.com/freeconf/yang/meta"
	"github.com/freeconf/yang/node"
	"github.com/freeconf/yang/nodeutil"
	"github.com/freeconf/yang/parser"
	"github.com/freeconf/yang/val"
)

func TestWitnessChooseErrorSwallowed(t *testing.T) {
	m, err := parser.LoadModuleFromString(nil, `module m { namespace "n"; prefix "p"; revision 0;
		choice c { case a { leaf x { type string; } } case b { leaf y { type string; } } } }`)
	if err != nil {
		t.Fatal(err)
	}
	boom := errors.New("choose failed")
	target := &nodeutil.Basic{}
	target.OnChoose = func(sel *node.Selection, choice *meta.Choice) (*meta.ChoiceCase, error) {
		return nil, boom
	}
	target.OnField = func(r node.FieldRequest, hnd *node.ValueHandle) error {
		if !r.Write {
			hnd.Val = nil
		}
		_ = val.String("")
		return nil
	}
	src, err := nodeutil.ReadJSON(`{"x":"hello"}`)
	if err != nil {
		t.Fatal(err)
	}
	err = node.NewBrowser(m, target).Root().UpsertFrom(src)
	if err == nil {
		t.Fatalf("the node's Choose callback returned %q but UpsertFrom returned nil", boom)
	}
}
