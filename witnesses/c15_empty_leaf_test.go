package nodeutil_test

import (
	"encoding/json"
	"testing"

	"github.com/freeconf/yang/node"
	"github.com/freeconf/yang/nodeutil"
	"github.com/freeconf/yang/parser"
	"github.com/freeconf/yang/val"
)

// RFC 7951 section 6.9: a leaf of type empty is written as [null]. Before the fix the JSON writer printed the
// Go formatting of the value (<not empty>), which is not JSON at all.
func TestEmptyLeafIsNullArray(t *testing.T) {
	m, err := parser.LoadModuleFromString(nil, `module m { namespace "m"; prefix "m"; revision 0;
		container c { leaf e { type empty; } leaf s { type string; } } }`)
	if err != nil {
		t.Fatal(err)
	}
	n := &nodeutil.Basic{}
	n.OnChild = func(r node.ChildRequest) (node.Node, error) {
		return &nodeutil.Basic{OnField: func(r node.FieldRequest, hnd *node.ValueHandle) error {
			switch r.Meta.Ident() {
			case "e":
				hnd.Val = val.NotEmpty
			case "s":
				hnd.Val = val.String("x")
			}
			return nil
		}}, nil
	}
	b := node.NewBrowser(m, n)
	out, err := nodeutil.WriteJSON(b.Root())
	if err != nil {
		t.Fatal(err)
	}
	var decoded map[string]map[string]interface{}
	if err := json.Unmarshal([]byte(out), &decoded); err != nil {
		t.Fatalf("output is not JSON: %v\n%s", err, out)
	}
	e, ok := decoded["c"]["e"].([]interface{})
	if !ok || len(e) != 1 || e[0] != nil {
		t.Fatalf("empty leaf must be [null], got %s", out)
	}
}
