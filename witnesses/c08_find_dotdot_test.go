package node_test

import (
	"testing"

	"github.com/freeconf/yang/node"
	"github.com/freeconf/yang/nodeutil"
	"github.com/freeconf/yang/parser"
)

// Find with leading "../" steps must walk up and then resolve the rest of the path against the selection it
// reached. Before the fix the unstripped path (and the schema of the starting selection) went to the path parser,
// so every "../x" ended in "not found".
func TestFindLeadingDotDot(t *testing.T) {
	m, err := parser.LoadModuleFromString(nil, `module m { namespace "m"; prefix "m"; revision 0;
		container a { leaf x { type string; } }
		container b { leaf y { type string; } } }`)
	if err != nil {
		t.Fatal(err)
	}
	data := map[string]interface{}{
		"a": map[string]interface{}{"x": "hello"},
		"b": map[string]interface{}{"y": "bye"},
	}
	b := node.NewBrowser(m, nodeutil.ReflectChild(data))
	a, err := b.Root().Find("a")
	if err != nil || a == nil {
		t.Fatalf("setup: %v %v", a, err)
	}
	sel, err := a.Find("../b")
	if err != nil {
		t.Fatalf("Find(\"../b\") from a: %v", err)
	}
	if sel == nil {
		t.Fatal("Find(\"../b\") from a: no selection")
	}
	v, err := sel.GetValue("y")
	if err != nil || v == nil || v.String() != "bye" {
		t.Fatalf("wrong node selected: %v %v", v, err)
	}
	if sel2, err := a.Find("../b?depth=1"); err != nil || sel2 == nil {
		t.Fatalf("Find(\"../b?depth=1\") from a: %v %v", sel2, err)
	}
}
