package nodeutil_test

import (
	"strings"
	"testing"

	"github.com/freeconf/yang/node"
	"github.com/freeconf/yang/nodeutil"
	"github.com/freeconf/yang/parser"
)

// A where= expression is request content: a bare path without a comparison, or a very long and-chain, must be
// rejected (or evaluated), not crash. Before the fix the first hit panic("unknown xpath expression") and the second
// ran past the fixed 256-entry path stack of the expression parser.
func TestWhereExpressionCannotCrash(t *testing.T) {
	m, err := parser.LoadModuleFromString(nil, `module m { namespace "m"; prefix "m"; revision 0;
		list l { key k; leaf k { type string; } leaf v { type int32; } } }`)
	if err != nil {
		t.Fatal(err)
	}
	long := "k='a'" + strings.Repeat(" and k='a'", 400)
	for _, q := range []string{"l?where=k", "l?where=" + long} {
		func() {
			defer func() {
				if p := recover(); p != nil {
					t.Errorf("%.30s: panic: %v", q, p)
				}
			}()
			b := node.NewBrowser(m, nodeutil.ReflectChild(map[string]interface{}{"l": []map[string]interface{}{{"k": "a", "v": 1}}}))
			sel, err := b.Root().Find(q)
			if err == nil && sel != nil {
				_, _ = nodeutil.WriteJSON(sel)
			}
		}()
	}
}
