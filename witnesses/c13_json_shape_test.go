package nodeutil_test

import (
	"testing"

	"github.com/freeconf/yang/node"
	"github.com/freeconf/yang/nodeutil"
	"github.com/freeconf/yang/parser"
)

// A JSON document whose shape does not fit the schema (a scalar or array where a container is expected, an object or
// null where a list is expected, a scalar list entry) must be rejected with an error. Before the fix the JSON reader
// crashed with a failed interface conversion.
func TestJsonShapeMismatchIsAnError(t *testing.T) {
	m, err := parser.LoadModuleFromString(nil, `module m { namespace "m"; prefix "m"; revision 0;
		container c { leaf x { type string; } }
		list l { key k; leaf k { type string; } leaf v { type int32; } } }`)
	if err != nil {
		t.Fatal(err)
	}
	for _, js := range []string{`{"c":5}`, `{"c":[1]}`, `{"c":null}`, `{"l":{"k":"a"}}`, `{"l":null}`, `{"l":[5]}`, `{"l":[null]}`} {
		func() {
			defer func() {
				if p := recover(); p != nil {
					t.Errorf("%s: panic instead of an error: %v", js, p)
				}
			}()
			b := node.NewBrowser(m, nodeutil.ReflectChild(map[string]interface{}{}))
			n, err := nodeutil.ReadJSON(js)
			if err != nil {
				return
			}
			if err = b.Root().UpsertFrom(n); err == nil {
				t.Errorf("%s: accepted", js)
			}
		}()
	}
}
