package node_test

// Witness for known finding node.PathMatchExpression.match#inv0:L1.1 (C07, C13):
// a multi-segment fields= selector makes PathMatchExpression.match walk off the parent chain and panic.
// The test FAILS while the defect is present.

import (
	"testing"

	"github.com/freeconf/yang/node"
	"github.com/freeconf/yang/nodeutil"
	"github.com/freeconf/yang/parser"
)

func TestWitnessFieldsMultiSegment(t *testing.T) {
	m, err := parser.LoadModuleFromString(nil, `module m { namespace "n"; prefix "p"; revision 0;
		container c { container d { leaf z { type string; } leaf y { type string; } } leaf x { type string; } } }`)
	if err != nil {
		t.Fatal(err)
	}
	data := map[string]interface{}{"c": map[string]interface{}{"d": map[string]interface{}{"z": "1", "y": "2"}, "x": "3"}}
	b := node.NewBrowser(m, nodeutil.ReflectChild(data))
	defer func() {
		if r := recover(); r != nil {
			t.Fatalf("panic: %v", r)
		}
	}()
	sel, err := b.Root().Find("c?fields=d/z")
	if err != nil {
		t.Fatal(err)
	}
	if _, err := nodeutil.WriteJSON(sel); err != nil {
		t.Fatal(err)
	}
}
