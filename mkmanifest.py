#!/usr/bin/env python3
# Regenerates MANIFEST.json from the table below (kept as code so the manifest stays valid and consistent).
import json, subprocess
baseline = json.load(open('/root/.vp/BASELINE.json'))['cmd']
hooks = subprocess.run(['git','-C','/repo','log','--format=%h %s'],capture_output=True,text=True).stdout.splitlines()
hook_commits = [l.split()[0] for l in hooks if l.split(' ',1)[1].startswith('verif hook:')]

TRUST = "Trusted: go/packages+go/ssa (x/tools v0.29.0) IR construction, the govc VC generator (exercised by the must-fail corpus in selftest/), z3 5.1.0 / cvc5 1.0.3 / z3 4.8.12, and the trusted library specifications listed under 'assumptions' in the evidence (strings.Compare, strconv.Parse*, fmt.Errorf, ...). int is 64 bit; no concurrency; callee panics are separate safety obligations."

TECH='deductive verification with ghost state and interface contracts: weakest-precondition VCs from go/ssa; contracts in node/contracts_verif.go; discharged by z3/cvc5'
claimed = {
 'C15': dict(
   text="Proof (partial: string escaping and per-format rendering; bracket/comma structure across the editor's callback sequence and the decode direction of the JSON grammar are not decided): nodeutil.writeString — for every string and both escapeHTML settings, every write is pinned to the byte or rune at the current position: opening and closing quote, a backslash only in front of a byte that is not copy-safe, \\\\ and \\\" for themselves, \\n \\r \\t for the three named controls, \\u00XX with the two correct hex digits for every other unsafe ASCII byte, \\ufffd exactly for an undecodable byte, \\u2028/\\u2029 for the two separators; no ASCII byte that needs escaping is ever copied verbatim (loop invariant over the pending run, against the imported safeSet/htmlSafeSet tables), every pending run is flushed exactly before an escape and at the end, indices stay in bounds and the loop terminates. JSONWtr.writeValue's per-item closure — strings, binary, bits and identityrefs never reach the raw writer (only the quoting writeString), an empty-typed leaf is written as the literal [null]. One genuine defect found and repaired (fix: af9bad0, empty leaf written as <not empty>).",
   ref="7 (C15)", technique="deductive verification: weakest-precondition VCs from go/ssa, per-call-site argument clauses, constant tables imported from their initialisers; contracts in nodeutil/contracts_verif.go; discharged by z3/cvc5"),
 'C02': dict(
   text="Proof (partial: the combination step of the typedef chain only; name resolution, the compile order and default/units inheritance in compiler.compileType are not under contract): Type.mixin — for every base and derived type (with distinct backing arrays, as the builder creates them) the derived type keeps each of its own range, length and bit restrictions and gains every one of the base's, in order, so every level of the chain stays enforced; patterns, enums, the leafref path and fraction-digits are inherited exactly when the derived type states none; the built-in format is the base's; nothing but the derived type (and the spare capacity of its own restriction slices) is written.",
   ref="7 (C02)", technique="deductive verification: weakest-precondition VCs from go/ssa with loop invariants and a frame condition; contract in meta/contracts_verif.go; discharged by z3/cvc5"),
 'C03': dict(
   text="Proof (partial: the editor's own decisions; the merge result itself lives in node implementations behind the Node interface): editor.node — insert of a child that is not created is an error, update never creates, a created child means a New request was issued; editor.leaf — defaults are requested exactly when (strategy != update and the enclosing node is new) or the editor was asked to set defaults, nothing is written when the source has no value; editor.enter/list/node/leaf/selekt/selectListItem keep the edit protocol (C12 clauses) for every strategy. Not decided: that the target tree equals the keyed deep merge; conflict/not-found error identity for lists.",
   ref="7 (C03)", technique=TECH),
 'C04': dict(
   text="Proof (partial: iteration and read protocol): Selection.get — a read vetoed by a pre-constraint asks the node nothing, a successful read always passes the post-constraints exactly once, reads never write; selectVisibleListItem/selectListItem — rows are requested one at a time, invisible rows skipped without writes; editor.leaf/list/enter — the export walk issues no write to the source. Not decided: JSON writer/reader round trip (encoding/json and the reader are outside the contracts), schema-order of containerMetaList (abstracted).",
   ref="7 (C04)", technique=TECH),
 'C08': dict(
   text="Proof (partial: navigation discipline): parseUrlPath returns only segments that name schema nodes, keys only on lists, never crashes on any path text and terminates; findSlice issues only requests carrying Target (constraint checks for non-navigation requests: ghost counter unchanged), never New/Delete (nodeWrites unchanged), balanced edit state, a nil child or entry ends the walk with no selection; Path.EqualNoKey/equalSegment compare schema nodes segment by segment. Not decided: that rendering a path and parsing it back are inverse (needs string theory and net/url), Find's query handling and selection copying (trusted summary).",
   ref="7 (C08)", technique=TECH),
 'C09': dict(
   text="Proof (partial: the editor's clearing decision): clearOnDifferentChoiceCase — a node outside any choice triggers no clearing and no write; at most one clearing per call; if nothing was cleared and no error occurred nothing was written; ClearField issues one write through Selection.set. Known finding (C12): a Choose error is swallowed. Not decided: nested choices (only the innermost choice is consulted), what Choose implementations answer, clearChoiceCase itself (trusted summary).",
   ref="7 (C09)", technique=TECH),
 'C13': dict(
   text="Proof (partial: enumerated functions): no request content can panic or hang parseUrlPath, NewValues, NewValuesByString, findSlice, Path.Len, Path.EqualNoKey/equalSegment, RangeNumber.Compare, RangeEntry/Range.CheckValue; PathMatchExpression.match is crash-free outside the recorded known finding (multi-segment selector longer than the candidate). Not decided: JSON/XML readers, xpath lexer and evaluator, NewValue, BuildConstraints.",
   ref="7 (C13)", technique='deductive verification: safety (no-panic) and termination obligations from go/ssa; contracts in node/ and meta/contracts_verif.go; discharged by z3/cvc5'),
 'C18': dict(
   text="Proof (partial: the requests issued): Selection.Delete issues at most one request, with Delete set, to the parent's node (list entries by the selection's key), inside a begin/end pair that is balanced on every path, and a node error surfaces; ReplaceFrom starts the insert only after a successful delete (ghost counter), at most once. Not decided: the slice/map surgery in nodeutil (package reflect), key uniqueness across histories.",
   ref="7 (C18)", technique=TECH),
 'C05': dict(
   text="Proof, all inputs: the range/length machinery is verified function by function against the property's acceptance predicate: RangeNumber.Compare (sign of bound-value incl. min/max, exact bit-vector/IEEE semantics, no panic), RangeEntry.CheckValue (inside [min,max] or equal to the exact value), Range.CheckValue (one alternative; every element of a leaf-list on its own), fieldConstraints.checkRange/lenCheck (EVERY level of the typedef chain), patternCheck (invert-match honoured), checkString, CheckFieldPreConstraints (incl. string leaf-lists), and Selection.set: a vetoed or failing pre-constraint issues no Field request to the node (ghost counter fieldWrites) and the veto is what is returned. Not decided: enum/bits/identityref/union membership (node.NewValue), that node implementations store nothing on error, well-formedness of range literals vs. base type (assumed: RFC 7950 9.2.4).",
   ref="7 (C05)", technique="deductive verification: weakest-precondition VCs from go/ssa with loop invariants, opaque specification predicates and ghost state; contracts in meta/, node/, val/contracts_verif.go; discharged by z3/cvc5"),
 'C07': dict(
   text="Proof per constraint, all requests: each query-parameter constraint is verified against the projection it defines — depth (MaxDepth.checkPathLen against the recursive specification relDepth: list+entry count once; termination proved), fc.range (ListRange: cursor moved to StartRow on the first request of the selected list, half-open window [StartRow,EndRow), other lists untouched — frame condition), fc.max-node-count (persistent counter, error exactly when exceeded), content (config/nonconfig filters), fields/fc.xfields (FieldsMatcher = selector match xor reverse), with-defaults=trim (value nil iff equal to schema default, otherwise untouched), Path.Len/EqualNoKey/equalSegment against sameMetaChain; every constraint answers (true,nil) and changes nothing for navigation requests. PathMatchExpression.match is proved crash-free outside the recorded known finding (selector longer than the candidate's tail). Not decided: combination order in Constraints.Check* (intersection), BuildConstraints parameter parsing, that node implementations honour the decisions.",
   ref="7 (C07)", technique="deductive verification: weakest-precondition VCs from go/ssa, recursive specification functions with trusted induction axioms, frame conditions; contracts in node/contracts_verif.go; discharged by z3/cvc5"),
 'C10': dict(
   text="Proof, all inputs: val.Conv and the scalar conversion helpers toInt8..toUInt64, toDecimal64, toBool are verified in exact machine semantics (bit-vectors, IEEE floats) against denotesInt/denotesFloat: a nil error implies the result denotes exactly the source number for every Go integer kind, float32/float64 (integral and in range, no rounding) and numeric strings (strconv.Parse* trusted). Not decided: the list forms (to*List), time.Time and reflect fall-backs, node.NewValue front end.",
   ref="7 (C10)", technique="deductive verification: weakest-precondition VCs from go/ssa (bit-vector + floating-point theories), contracts in val/contracts_verif.go, discharged by z3/cvc5"),
 'C12': dict(
   text="Proof with ghost state, for every failure point: the node.Node interface methods carry ghost bookkeeping contracts (open = successful BeginEdit minus EndEdit calls; failed = some callback returned an error; nodeWrites / writesAfterFail). Against them: Selection.beginEdit tells exactly chain(sel,bubble) nodes on success and leaves open unchanged on failure (already-begun nodes are unwound); endEdit tells all of them whatever fails; Selection.Delete, editor.enter (deferred endEdit inlined at every return), edit, leaf, node, list, set, get, ClearField, selekt, selectListItem, selectVisibleListItem all guarantee: open unchanged at return on EVERY path, a callback error since entry implies a non-nil error return, and no data-changing request is issued after a failure; termination of the bubbling loops is proved. Known finding (recorded, witness replayed): editor.clearOnDifferentChoiceCase swallows a Choose error. Not decided: that the returned error wraps the callback's error (fmt.Errorf %w), lookAhead's panic on a Choose error during reads, clearChoiceCase (works on selection copies; trusted summary), trigger callbacks.",
   ref="7 (C12)", technique="deductive verification with ghost state and interface contracts: weakest-precondition VCs from go/ssa (defer/closures inlined), recursive specification functions over the selection chain; contracts in node/contracts_verif.go; discharged by z3/cvc5"),
 'C14': dict(
   text="Proof, all module texts, for the hand-written lexer layer: under the lexer representation invariant (0<=start<=pos<=len(input), ring indices inside the token buffer) every lexer method (next, backup, peek, ignore, isEof, acceptWS, acceptToken, acceptRun, acceptString, acceptNumber, acceptInteger, acceptToks, emit, pushToken, popToken, keyword, Position), the definition stack (push grows, pop/peek/peekModule in range), tokenString, trimQuotes and isPrefixedIdent are proved free of index/slice/nil panics and to re-establish the invariant with exact frames (assigns clauses); the scanning loops of acceptWS (all four), acceptString, acceptNumber, acceptInteger, Position, peekModule are proved terminating (decreases len(input)-pos). Not decided: the goyacc table interpreter yyParse and the grammar actions, lexBegin's statement dispatch, resolver/compiler recursion over cyclic typedefs/identities, loader/opener faults.",
   ref="7 (C14)", technique="deductive verification: safety and termination obligations (weakest-precondition VCs from go/ssa, checked mathematical integers with no-overflow obligations); contracts in parser/contracts_verif.go; discharged by z3/cvc5"),
 'C16': dict(
   text="Proof (partial: the comparison and the visibility decisions; path resolution, literal conversion and the read of the operand are trusted abstractions): xpathImpl.resolveOperator — for each of =, !=, <, <=, >, >= the result equals the mathematical comparison cmpv of the leaf value with the literal for every ordered scalar type (numeric for all widths, by name for enums, character-wise for strings, by truth value for booleans; the Compare methods themselves are proved under C17); an unset leaf or absent literal makes every comparison false; unknown operators, non-leaf operands and incomparable values are errors, never panics; no write is issued. Where: entries of the list the read started at are visible exactly when the predicate holds, everything else passes. CheckWhen.check: no when-statement or nil selection passes; otherwise the predicate decides. Notification filter: the predicate decides. val.Equal is proved for arbitrary arguments.",
   ref="7 (C16)", technique=TECH),
 'C17': dict(
   text="Proof, all inputs: every Compare method of package val is verified (exact 64-bit machine semantics, bit-vectors) against the mathematical order cmpv (numeric order for every signed/unsigned width, IEEE order for decimal64, byte order for strings/identity names, id order for enums, false<true); the order laws (range, reflexive, antisymmetric, transitive, strict-transitive, equality-transitive, agreement with integer order) are lemmas over cmpv discharged by SMT. Not decided: reflect-based lookups in nodeutil (reflect is outside the subset).",
   ref="7 (C17)", technique="deductive verification: weakest-precondition VCs from go/ssa, contracts in val/contracts_verif.go, discharged by z3/cvc5"),
}

na = {
 'C01': "relational, inductive statement over pairs of module sets implemented by mutually recursive resolver code and 4400 lines of generated clone code; no per-function contract dischargeable by SMT can carry it (DESIGN.md section 8)",
 'C06': "fidelity through the goyacc table interpreter and RFC 7950 string unescaping plus a hyperproperty over map-iteration order; not expressible as function contracts within reach (DESIGN.md section 8)",
 'C11': "the statement is about the VALUE of every if-feature expression under RFC 7950 precedence and about deviations changing exactly one property; within reach of per-function contracts is only crash freedom and termination of the operator-stack evaluator (relating it to the grammar needs induction over token sequences that an SMT solver does not do; the planned bounded equivalence check was not built), and deviations go through the resolver and 4400 lines of generated setters that are not under contract; a safety-only claim would pass every precedence-breaking change, so the property is not claimed (DESIGN.md section 0.7)",
 'C20': "the statement quantifies over every goroutine schedule; contract-based deductive verification of sequential functions has no handle on interleavings, and the frame-only reading (no package-level writes anywhere in the load and data paths) needs a whole-program effect inference, which is a static analysis outside this family (DESIGN.md section 0.7)",
 'C19': "composition of editor, two writers and the 4000-line patched encoding/xml; needs a string-theory specification of XML escaping (DESIGN.md section 8)",
}
pending = "contracts for this property are not built yet in this revision of /verif; it is not claimed until its check exists (see DESIGN.md section 7 for the plan)"
allp = [json.loads(l)['id'] for l in open('properties.jsonl')]
checks = []
for pid in allp:
    if pid in claimed:
        c = claimed[pid]
        checks.append(dict(property_id=pid,
            quick_cmd=f"./bin/govc check --property {pid} --tier quick",
            thorough_cmd=f"./bin/govc check --property {pid} --tier thorough",
            evidence_file=f"/verif/evidence/{pid}.json",
            replay_cmd_template="./bin/govc replay {path}",
            engine="govc",
            level_claimed=dict(category="proof", text=c['text'], design_ref=c['ref']),
            level_note=TRUST, technique=c['technique']))
not_app = []
for pid in allp:
    if pid not in claimed:
        not_app.append(dict(property_id=pid, reason=na.get(pid, pending)))
m = dict(version=1,
    setup_cmd="cd /verif/engine && GOFLAGS=-mod=vendor GOPROXY=off GOSUMDB=off GOTOOLCHAIN=local go build -o ../bin/govc ./cmd/govc",
    hooks=dict(guard="verif", enable="contracts are comment-only files <pkg>/contracts_verif.go with //go:build verif; govc loads /repo with -tags verif", baseline_off_cmd=baseline, source_commits=hook_commits, add_only=True),
    engines=[dict(name="govc", path="/verif/engine", serves_properties=sorted(claimed), kind_free_text="contract-based deductive verifier for Go: VC generation over go/ssa, SMT portfolio")],
    checks=checks, not_applicable=not_app,
    notes="Known findings and repaired defects: /verif/known_findings.json. Design: /verif/DESIGN.md.")
json.dump(m, open('MANIFEST.json','w'), indent=1)
print("claimed", sorted(claimed), "hooks", hook_commits)
