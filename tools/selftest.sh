#!/bin/bash
# Must-fail / must-pass corpus: applies each patch in selftest/mutants to /repo, runs the named check, restores.
cd /verif
if [ -n "$(git -C /repo status --porcelain)" ]; then echo "selftest: /repo has uncommitted changes"; exit 3; fi
fail=0
for p in selftest/mutants/*.patch; do
  n=$(basename $p .patch); read prop expect < selftest/mutants/$n.prop; expect=${expect:-FAIL}
  if ! git -C /repo apply --check /verif/$p 2>/dev/null; then echo "$n: patch does not apply (stale)"; continue; fi
  git -C /repo apply /verif/$p
  out=$(GOVC_NOEVIDENCE=1 ./bin/govc check --property $prop 2>&1); rc=$?
  git -C /repo checkout -q -- .
  v=$(echo "$out" | grep '^VIOLATION' | head -2 | sed 's/replay=[^ ]* //' | cut -c1-160 | tr '\n' ';')
  if [ "$expect" = "PASS" ]; then
    if [ $rc -eq 0 ]; then echo "$n ($prop): ok, passes as expected"; else echo "$n ($prop): UNEXPECTED ALARM rc=$rc $v"; fail=1; fi
  else
    if [ $rc -eq 1 ]; then echo "$n ($prop): ok, detected: $v"; else echo "$n ($prop): MISSED rc=$rc"; fail=1; fi
  fi
done
exit $fail
