#!/usr/bin/env python3
"""Debug aid: greedy minimisation of the assertions of an unsat SMT-LIB script (which assumptions make it unsat)."""
import subprocess, sys, tempfile, os
src = open(sys.argv[1]).read().split('\n')
solver = sys.argv[2:] or ['cvc5', '--tlimit=5000']
def unsat(lines):
    with tempfile.NamedTemporaryFile('w', suffix='.smt2', delete=False) as f:
        f.write('\n'.join(lines)); n = f.name
    try:
        out = subprocess.run(solver + [n], capture_output=True, text=True, timeout=20).stdout
    except subprocess.TimeoutExpired:
        out = ''
    os.unlink(n)
    return out.strip().startswith('unsat')
assert unsat(src), "not unsat"
idx = [i for i, l in enumerate(src) if l.startswith('(assert')]
keep = set(idx)
# chunked removal
chunk = max(1, len(idx)//8)
while chunk >= 1:
    i = 0
    cur = sorted(keep)
    while i < len(cur):
        trial = keep - set(cur[i:i+chunk])
        if unsat([l for j, l in enumerate(src) if not l.startswith('(assert') or j in trial]):
            keep = trial
        i += chunk
    chunk //= 2
for j in sorted(keep):
    print(j+1, src[j][:600])
