#!/bin/bash
# runs every claimed quick check in parallel and prints one summary line per property (regression check)
cd /verif
for p in $(python3 -c "import json;print(' '.join(c['property_id'] for c in json.load(open('MANIFEST.json'))['checks']))"); do
  ( out=$(./bin/govc check --property $p 2>&1); rc=$?; echo "$p exit=$rc $(echo "$out" | tail -1 | cut -c1-160)"; echo "$out" | grep "^VIOLATION\|^ENGINE\|^WARNING" | head -5 | cut -c1-220 ) &
  while [ $(jobs -r | wc -l) -ge 2 ]; do sleep 1; done
done
wait
# evidence audit: a committed evidence file must come from a clean run on the unchanged tree
python3 - <<'PY'
import json,glob
for f in sorted(glob.glob('/verif/evidence/C*.json')):
    e=json.load(open(f)); c=e['coverage']
    if e.get('violations') or c.get('obligations')!=c.get('discharged'):
        print('EVIDENCE-NOT-CLEAN', f)
PY
