#!/bin/bash
# usage: seedcheck.sh <seed-id> <src _seed dir> <pkgdir> <demo file name in _seed> <TestName> <props...>
# Confirms a seeded change in a fresh scratch worktree, then runs the govc checks against /repo with the patch applied.
set -u
export GOFLAGS=-mod=mod GOPROXY=off GOSUMDB=off GOTOOLCHAIN=local
if [ -n "$(git -C /repo status --porcelain)" ]; then echo "seedcheck: /repo has uncommitted changes; commit them first"; exit 3; fi
ID=$1; SRC=$2; PKG=$3; DEMO=$4; TEST=$5; shift 5; PROPS="$@"
DST=/verif/seeded/$ID
mkdir -p $DST && cp $SRC/patch.diff $SRC/meta.json $SRC/$DEMO $DST/ 2>/dev/null
WT=/tmp/seedwt_$ID
git -C /repo worktree remove --force $WT 2>/dev/null
git -C /repo worktree add -q --detach $WT HEAD || exit 2
cd $WT
R=""
if git apply --check $DST/patch.diff 2>/dev/null; then
  git apply $DST/patch.diff
  if go build ./... 2>/dev/null; then R="$R builds=yes"; else R="$R builds=NO"; fi
  if go test -count=1 ./... >/tmp/seed_$ID.suite 2>&1; then R="$R suite=pass"; else R="$R suite=FAIL"; fi
  cp $DST/$DEMO $WT/$PKG/zz_seed_demo_test.go
  if go test -count=1 -run "^$TEST\$" ./$PKG/ >/tmp/seed_$ID.demo1 2>&1; then R="$R demo_with_change=PASS(unexpected)"; else R="$R demo_with_change=fail"; fi
  git apply -R $DST/patch.diff
  if go test -count=1 -run "^$TEST\$" ./$PKG/ >/tmp/seed_$ID.demo2 2>&1; then R="$R demo_without_change=pass"; else R="$R demo_without_change=FAIL(unexpected)"; fi
else
  R="$R patch_applies=NO"
fi
cd /verif
git -C /repo worktree remove --force $WT
# run the checks on /repo with the patch applied
DET=""
if git -C /repo apply --check $DST/patch.diff 2>/dev/null; then
  git -C /repo apply $DST/patch.diff
  for p in $PROPS; do
    OUT=$(GOVC_NOEVIDENCE=1 ./bin/govc check --property $p 2>&1)
    rc=$?
    n=$(echo "$OUT" | grep -c '^VIOLATION')
    first=$(echo "$OUT" | grep '^VIOLATION' | head -3 | sed 's/replay=[^ ]* //')
    DET="$DET | $p: exit=$rc violations=$n $first"
  done
  git -C /repo checkout -- .
fi
echo "$ID:$R $DET"
echo "$ID:$R $DET" > $DST/seedcheck.txt
