#!/bin/bash
# like reseed.sh, but every stored seeded change is applied to its own scratch worktree (removed afterwards) and
# checked with --repo, so /repo is not touched and several seeds run side by side.  usage: reseed_par.sh [jobs] [ids...]
cd /verif
J=${1:-3}; shift
IDS="$@"; [ -z "$IDS" ] && IDS=$(ls -d /verif/seeded/C*/ | xargs -n1 basename)
mkdir -p /tmp/rs
one() {
  id=$1; d=/verif/seeded/$id; prop=${id:0:3}; props=$prop
  [ -f $d/props ] && props=$(cat $d/props)
  wt=/tmp/rs/$id
  git -C /repo worktree remove --force $wt 2>/dev/null
  git -C /repo worktree add -q --detach $wt HEAD || { echo "$id: no worktree"; return; }
  if ! git -C $wt apply $d/patch.diff 2>/dev/null; then echo "$id: patch no longer applies"; git -C /repo worktree remove --force $wt; return; fi
  line="$id:"
  for p in $props; do
    OUT=$(GOVC_NOEVIDENCE=1 ./bin/govc check --property $p --repo $wt 2>&1); rc=$?
    n=$(echo "$OUT" | grep -c '^VIOLATION')
    first=$(echo "$OUT" | grep '^VIOLATION' | head -2 | sed 's/.*obligation=//' | tr '\n' ';')
    line="$line $p exit=$rc violations=$n $first"
  done
  git -C /repo worktree remove --force $wt
  echo "$line" | cut -c1-400
  echo "$line" > $d/recheck.txt
}
for id in $IDS; do
  one $id &
  while [ $(jobs -r | wc -l) -ge $J ]; do sleep 1; done
done
wait
git -C /repo worktree prune
