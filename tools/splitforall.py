#!/usr/bin/env python3
"""Debug aid: the goal '(assert (and PATH (not (forall (..) (! (=> G (and A B ..)) :pattern ..)))))' is tried conjunct by conjunct."""
import sys, subprocess, re
src=open(sys.argv[1]).read().rstrip().split('\n')
assert src[-1].startswith('(check-sat')
goal=src[-2]
def args(t):
    out=[];d=0;st=None
    for i,c in enumerate(t):
        if c=='(':
            if d==1 and st is None: st=i
            d+=1
        elif c==')':
            d-=1
            if d==1 and st is not None: out.append(t[st:i+1]); st=None
        elif d==1 and st is None and not c.isspace():
            j=i
            while j<len(t) and not t[j].isspace() and t[j] not in '()': j+=1
    return out
i=goal.index('(=> ')
# find the (and ...) consequent: last top-level arg of the implication
depth=0; start=i
for j in range(i,len(goal)):
    if goal[j]=='(': depth+=1
    elif goal[j]==')':
        depth-=1
        if depth==0: end=j; break
imp=goal[i:end+1]
a=args(imp)
cons=a[-1]
def flat(t):
    if t.startswith('(and '):
        r=[]
        for x in args(t): r+=flat(x)
        return r
    return [t]
for k,c in enumerate(flat(cons)):
    g2=goal.replace(cons,c)
    open('/tmp/sf.smt2','w').write('\n'.join(src[:-2]+[g2,'(check-sat)']))
    res=[]
    for s in (['z3-new','-T:20'],['cvc5','--tlimit=20000']):
        try: res.append(subprocess.run(s+['/tmp/sf.smt2'],capture_output=True,text=True,timeout=25).stdout.strip().split('\n')[0])
        except subprocess.TimeoutExpired: res.append('timeout')
    print(k, res, c[:200])
