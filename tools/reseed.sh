#!/bin/bash
# re-runs the claimed checks against every stored seeded change (patch applied to /repo, then undone)
cd /verif
if [ -n "$(git -C /repo status --porcelain)" ]; then echo "reseed: /repo has uncommitted changes"; exit 3; fi
for d in /verif/seeded/C*/; do
  id=$(basename $d); prop=${id:0:3}
  props=$prop
  [ -f $d/props ] && props=$(cat $d/props)
  if ! git -C /repo apply --check $d/patch.diff 2>/dev/null; then echo "$id: patch no longer applies"; continue; fi
  git -C /repo apply $d/patch.diff
  line="$id:"
  for p in $props; do
    OUT=$(GOVC_NOEVIDENCE=1 ./bin/govc check --property $p 2>&1); rc=$?
    n=$(echo "$OUT" | grep -c '^VIOLATION')
    first=$(echo "$OUT" | grep '^VIOLATION' | head -2 | sed 's/.*obligation=//' | tr '\n' ';')
    line="$line $p exit=$rc violations=$n $first"
  done
  git -C /repo checkout -- .
  echo "$line" | cut -c1-400
  echo "$line" > $d/recheck.txt
done
