package main

// Reader for the //@ contract files (/repo/<pkg>/contracts_verif.go).

import (
	"bufio"
	"fmt"
	"os"
	"regexp"
	"strconv"
	"strings"
)

type Clause struct {
	Text string
	Expr SExpr
	Line int
	File string
	Tag  string // optional label: "ensures[name] expr"
}

type LoopSpec struct {
	Invariants []*Clause
	Decreases  *Clause
}

type Contract struct {
	Key        string // pkg.Recv.Name
	Pkg        string
	Header     string
	File       string
	Line       int
	Mode       IntMode
	Props      []string
	Requires   []*Clause
	Ensures    []*Clause
	Checks     []*Clause // like ensures, but internal: may mention locals; proved at every return, never assumed by callers
	Loops      map[int]*LoopSpec
	Decreases  *Clause
	Assigns    []*Clause // location expressions
	HasAssigns bool
	MayPanic   bool
	NoAlloc    bool // the function creates no object that its caller can reach (results and stored values existed before)
	Trusted    bool
	Inline     bool
	Iface      bool // interface method contract
	NoVerify   bool // contract only used at call sites (e.g. interface methods)
	Asserts    []*Clause
	CallSites  []*CallSiteClause // assertions about the arguments of calls made by this function
	Known      []KnownRegion     // filled from known_findings.json
}

type CallSiteClause struct {
	Callee string // name of the called function or method
	Ord    int    // 0: every call; k: only the k-th call of that name in the function (source order)
	Clause *Clause
}

type PureFunc struct {
	Name   string
	Pkg    string
	Params []SVar
	Ret    *SType
	Body   SExpr // nil = uninterpreted
	Macro  bool  // expanded at each use in the current state (may read the heap)
	Opaque bool  // declared uninterpreted with a triggered defining axiom (body evaluated on the entry heap; invariants only)
	Text   string
	File   string
	Line   int
}

type Axiom struct {
	Name string
	Pkg  string
	Expr SExpr
	Text string
}

type Lemma struct {
	Name   string
	Pkg    string
	Params []SVar
	Expr   SExpr
	Text   string
	Props  []string
	Mode   IntMode
	File   string
	Line   int
}

type GhostVar struct {
	Name string
	Pkg  string
	T    *SType
}

type SpecEnv struct {
	Pures  map[string]*PureFunc
	Order  []string
	Axioms []*Axiom
	Lemmas []*Lemma
	Ghosts map[string]*GhostVar
	GOrder []string
}

var (
	reFunc     = regexp.MustCompile(`^func\s*(?:\(\s*(?:\w+\s+)?\*?(\w+)\s*\))?\s*([\w$]+)`)
	reIface    = regexp.MustCompile(`^interface\s+(?:(\w+)\.)?(\w+)\.(\w+)\s*\(`)
	rePure     = regexp.MustCompile(`^pure\s+(\w+)\s*\(([^)]*)\)\s*([^=]*?)\s*(?:=\s*(.*))?$`)
	reLemma    = regexp.MustCompile(`^lemma\s+(\w+)\s*\(([^)]*)\)\s*:\s*(.*)$`)
	reAxiom    = regexp.MustCompile(`^axiom\s+(\w+)\s*:\s*(.*)$`)
	reGhost    = regexp.MustCompile(`^ghost\s+var\s+(\w+)\s+(.*)$`)
	reLoop     = regexp.MustCompile(`^loop\s+(\d+|\*)\s+(invariant|decreases)\s+(.*)$`)
	reFuncT    = regexp.MustCompile(`^functype\s+(\w+)\s*\(`)
	reExtern   = regexp.MustCompile(`^extern\s+([\w/.\-]+?\.(?:\(\*?\w+\)\.)?\w+)\s*(?:\(|$)`)
	reCallSite = regexp.MustCompile(`^callsite\s+([\w.]+)(?:#(\d+))?\s*:\s*(.*)$`)
	reTag      = regexp.MustCompile(`^\[(\w+)\]\s*(.*)$`)
)

func parseParams(s string) ([]SVar, error) {
	var out []SVar
	s = strings.TrimSpace(s)
	if s == "" {
		return out, nil
	}
	for _, part := range strings.Split(s, ",") {
		part = strings.TrimSpace(part)
		f := strings.SplitN(part, " ", 2)
		v := SVar{Name: f[0]}
		if len(f) == 2 {
			t, err := parseTypeStr(strings.TrimSpace(f[1]))
			if err != nil {
				return nil, err
			}
			v.T = t
		}
		out = append(out, v)
	}
	for i := len(out) - 2; i >= 0; i-- {
		if out[i].T == nil {
			out[i].T = out[i+1].T
		}
	}
	for _, v := range out {
		if v.T == nil {
			return nil, fmt.Errorf("parameter %s has no type", v.Name)
		}
	}
	return out, nil
}

func (P *Program) loadContracts() error {
	P.specs = &SpecEnv{Pures: map[string]*PureFunc{}, Ghosts: map[string]*GhostVar{}}
	for _, f := range P.contractFiles() {
		if err := P.loadContractFile(f); err != nil {
			return err
		}
	}
	return nil
}

func (P *Program) loadContractFile(file string) error {
	fh, err := os.Open(file)
	if err != nil {
		return err
	}
	defer fh.Close()
	sc := bufio.NewScanner(fh)
	sc.Buffer(make([]byte, 1<<20), 1<<20)
	pkg := ""
	var cur *Contract
	var curLemma *Lemma
	lineNo := 0
	var pending string
	pendingLine := 0
	mkClause := func(text string, line int) (*Clause, error) {
		tag := ""
		if m := reTag.FindStringSubmatch(text); m != nil {
			tag = m[1]
			text = m[2]
		}
		e, err := parseSpec(text)
		if err != nil {
			return nil, fmt.Errorf("%s:%d: %v", file, line, err)
		}
		return &Clause{Text: text, Expr: e, Line: line, File: file, Tag: tag}, nil
	}
	handle := func(text string, line int) error {
		text = strings.TrimSpace(text)
		if text == "" {
			return nil
		}
		if i := strings.Index(text, " //"); i >= 0 {
			text = strings.TrimSpace(text[:i])
		}
		switch {
		case strings.HasPrefix(text, "func"):
			m := reFunc.FindStringSubmatch(text)
			if m == nil {
				return fmt.Errorf("%s:%d: bad func header %q", file, line, text)
			}
			key := pkg + "."
			if m[1] != "" {
				key += m[1] + "."
			}
			key += m[2]
			cur = &Contract{Key: key, Pkg: pkg, Header: text, File: file, Line: line, Loops: map[int]*LoopSpec{}}
			curLemma = nil
			if _, dup := P.contracts[key]; dup {
				return fmt.Errorf("%s:%d: duplicate contract for %s", file, line, key)
			}
			P.contracts[key] = cur
			return nil
		case strings.HasPrefix(text, "extern "):
			m := reExtern.FindStringSubmatch(text)
			if m == nil {
				return fmt.Errorf("%s:%d: bad extern header %q", file, line, text)
			}
			key := "ext:" + m[1]
			cur = &Contract{Key: key, Pkg: pkg, Header: text, File: file, Line: line, Loops: map[int]*LoopSpec{}, NoVerify: true, Trusted: true}
			curLemma = nil
			P.contracts[key] = cur
			return nil
		case strings.HasPrefix(text, "functype "):
			m := reFuncT.FindStringSubmatch(text)
			if m == nil {
				return fmt.Errorf("%s:%d: bad functype header %q", file, line, text)
			}
			key := pkg + "." + m[1]
			cur = &Contract{Key: key, Pkg: pkg, Header: text, File: file, Line: line, Loops: map[int]*LoopSpec{}, Iface: true, NoVerify: true}
			curLemma = nil
			P.contracts[key] = cur
			return nil
		case strings.HasPrefix(text, "interface "):
			m := reIface.FindStringSubmatch(text)
			if m == nil {
				return fmt.Errorf("%s:%d: bad interface header %q", file, line, text)
			}
			key := pkg + "." + m[2] + "." + m[3]
			if m[1] != "" {
				// contract on another package's interface, used only while verifying functions of this package
				key = pkg + ":" + m[1] + "." + m[2] + "." + m[3]
			}
			cur = &Contract{Key: key, Pkg: pkg, Header: text, File: file, Line: line, Loops: map[int]*LoopSpec{}, Iface: true, NoVerify: true}
			curLemma = nil
			P.contracts[key] = cur
			return nil
		case strings.HasPrefix(text, "pure "), strings.HasPrefix(text, "macro "), strings.HasPrefix(text, "opaque "):
			isMacro := strings.HasPrefix(text, "macro ")
			isOpaque := strings.HasPrefix(text, "opaque ")
			if isMacro {
				text = "pure " + strings.TrimPrefix(text, "macro ")
			}
			if isOpaque {
				text = "pure " + strings.TrimPrefix(text, "opaque ")
			}
			m := rePure.FindStringSubmatch(text)
			if m == nil {
				return fmt.Errorf("%s:%d: bad pure decl %q", file, line, text)
			}
			params, err := parseParams(m[2])
			if err != nil {
				return fmt.Errorf("%s:%d: %v", file, line, err)
			}
			ret, err := parseTypeStr(strings.TrimSpace(m[3]))
			if err != nil {
				return fmt.Errorf("%s:%d: %v", file, line, err)
			}
			pf := &PureFunc{Name: m[1], Pkg: pkg, Params: params, Ret: ret, Text: text, File: file, Line: line, Macro: isMacro, Opaque: isOpaque}
			if strings.TrimSpace(m[4]) != "" {
				e, err := parseSpec(m[4])
				if err != nil {
					return fmt.Errorf("%s:%d: %v", file, line, err)
				}
				pf.Body = e
			}
			P.specs.Pures[pkg+"."+pf.Name] = pf
			P.specs.Order = append(P.specs.Order, pkg+"."+pf.Name)
			cur, curLemma = nil, nil
			return nil
		case strings.HasPrefix(text, "lemma "):
			m := reLemma.FindStringSubmatch(text)
			if m == nil {
				return fmt.Errorf("%s:%d: bad lemma %q", file, line, text)
			}
			params, err := parseParams(m[2])
			if err != nil {
				return fmt.Errorf("%s:%d: %v", file, line, err)
			}
			e, err := parseSpec(m[3])
			if err != nil {
				return fmt.Errorf("%s:%d: %v", file, line, err)
			}
			curLemma = &Lemma{Name: m[1], Pkg: pkg, Params: params, Expr: e, Text: m[3], File: file, Line: line}
			P.specs.Lemmas = append(P.specs.Lemmas, curLemma)
			cur = nil
			return nil
		case strings.HasPrefix(text, "axiom "):
			m := reAxiom.FindStringSubmatch(text)
			if m == nil {
				return fmt.Errorf("%s:%d: bad axiom %q", file, line, text)
			}
			e, err := parseSpec(m[2])
			if err != nil {
				return fmt.Errorf("%s:%d: %v", file, line, err)
			}
			P.specs.Axioms = append(P.specs.Axioms, &Axiom{Name: m[1], Pkg: pkg, Expr: e, Text: m[2]})
			cur, curLemma = nil, nil
			return nil
		case strings.HasPrefix(text, "ghost "):
			m := reGhost.FindStringSubmatch(text)
			if m == nil {
				return fmt.Errorf("%s:%d: bad ghost decl %q", file, line, text)
			}
			t, err := parseTypeStr(strings.TrimSpace(m[2]))
			if err != nil {
				return fmt.Errorf("%s:%d: %v", file, line, err)
			}
			P.specs.Ghosts[m[1]] = &GhostVar{Name: m[1], Pkg: pkg, T: t}
			P.specs.GOrder = append(P.specs.GOrder, m[1])
			return nil
		}
		// clause lines
		if curLemma != nil {
			f := strings.Fields(text)
			switch f[0] {
			case "property":
				curLemma.Props = append(curLemma.Props, f[1:]...)
			case "mode":
				if f[1] == "int" {
					curLemma.Mode = ModeInt
				}
			default:
				return fmt.Errorf("%s:%d: unexpected clause %q in lemma", file, line, text)
			}
			return nil
		}
		if cur == nil {
			return fmt.Errorf("%s:%d: clause outside contract: %q", file, line, text)
		}
		f := strings.SplitN(text, " ", 2)
		rest := ""
		if len(f) == 2 {
			rest = strings.TrimSpace(f[1])
		}
		switch f[0] {
		case "mode":
			if rest == "int" {
				cur.Mode = ModeInt
			} else if rest == "bv" {
				cur.Mode = ModeBV
			} else {
				return fmt.Errorf("%s:%d: bad mode %q", file, line, rest)
			}
		case "property":
			cur.Props = append(cur.Props, strings.Fields(rest)...)
		case "requires":
			c, err := mkClause(rest, line)
			if err != nil {
				return err
			}
			cur.Requires = append(cur.Requires, c)
		case "ensures":
			c, err := mkClause(rest, line)
			if err != nil {
				return err
			}
			cur.Ensures = append(cur.Ensures, c)
		case "callsite":
			m := reCallSite.FindStringSubmatch(text)
			if m == nil {
				return fmt.Errorf("%s:%d: bad callsite clause %q", file, line, text)
			}
			c, err := mkClause(m[3], line)
			if err != nil {
				return err
			}
			ord := 0
			if m[2] != "" {
				ord, _ = strconv.Atoi(m[2])
			}
			cur.CallSites = append(cur.CallSites, &CallSiteClause{Callee: m[1], Ord: ord, Clause: c})
		case "check":
			c, err := mkClause(rest, line)
			if err != nil {
				return err
			}
			cur.Checks = append(cur.Checks, c)
		case "assert":
			c, err := mkClause(rest, line)
			if err != nil {
				return err
			}
			cur.Asserts = append(cur.Asserts, c)
		case "loop":
			m := reLoop.FindStringSubmatch(text)
			if m == nil {
				return fmt.Errorf("%s:%d: bad loop clause %q", file, line, text)
			}
			n, _ := strconv.Atoi(m[1]) // "*" -> 0: applies to every loop without clauses of its own
			ls := cur.Loops[n]
			if ls == nil {
				ls = &LoopSpec{}
				cur.Loops[n] = ls
			}
			c, err := mkClause(m[3], line)
			if err != nil {
				return err
			}
			if m[2] == "invariant" {
				ls.Invariants = append(ls.Invariants, c)
			} else {
				ls.Decreases = c
			}
		case "decreases":
			c, err := mkClause(rest, line)
			if err != nil {
				return err
			}
			cur.Decreases = c
		case "assigns":
			cur.HasAssigns = true
			if rest != "" && rest != "nothing" {
				for _, part := range splitTop(rest) {
					c, err := mkClause(part, line)
					if err != nil {
						return err
					}
					cur.Assigns = append(cur.Assigns, c)
				}
			}
		case "maypanic":
			cur.MayPanic = true
		case "noalloc":
			cur.NoAlloc = true
		case "trusted":
			cur.Trusted = true
			cur.NoVerify = true
		case "inline":
			cur.Inline = true
		default:
			return fmt.Errorf("%s:%d: unknown clause %q", file, line, f[0])
		}
		return nil
	}
	for sc.Scan() {
		lineNo++
		line := sc.Text()
		t := strings.TrimSpace(line)
		if strings.HasPrefix(t, "package ") {
			pkg = strings.TrimSpace(strings.TrimPrefix(t, "package "))
			continue
		}
		if !strings.HasPrefix(t, "//@") {
			continue
		}
		body := strings.TrimPrefix(t, "//@")
		if strings.HasSuffix(strings.TrimSpace(body), "\\") {
			b := strings.TrimSpace(body)
			if pending == "" {
				pendingLine = lineNo
			}
			pending += " " + strings.TrimSuffix(b, "\\")
			continue
		}
		if pending != "" {
			body = pending + " " + strings.TrimSpace(body)
			pending = ""
			if err := handle(body, pendingLine); err != nil {
				return err
			}
			continue
		}
		if err := handle(body, lineNo); err != nil {
			return err
		}
	}
	return sc.Err()
}

// splitTop splits on commas not nested in parens/brackets.
func splitTop(s string) []string {
	var out []string
	depth := 0
	start := 0
	for i, c := range s {
		switch c {
		case '(', '[':
			depth++
		case ')', ']':
			depth--
		case ',':
			if depth == 0 {
				out = append(out, strings.TrimSpace(s[start:i]))
				start = i + 1
			}
		}
	}
	out = append(out, strings.TrimSpace(s[start:]))
	return out
}
