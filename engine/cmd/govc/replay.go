package main

import (
	"encoding/json"
	"fmt"
	"os"
	"path/filepath"
)

type ReplayFile struct {
	Property   string            `json:"property"`
	Obligation string            `json:"obligation"`
	Kind       string            `json:"kind"`
	Function   string            `json:"function"`
	Clause     string            `json:"clause"`
	Answer     string            `json:"solver_answer"`
	Solver     string            `json:"solver"`
	Inputs     map[string]string `json:"model_inputs,omitempty"`
	GoTest     string            `json:"go_test,omitempty"`
	Cmd        string            `json:"replay_cmd,omitempty"`
	Output     string            `json:"replay_output,omitempty"`
	Reproduced bool              `json:"reproduced_on_real_code"`
	SolverOut  string            `json:"solver_output"`
}

// writeReplays turns the failed obligations into replay files; counterexamples are executed against the
// real code, batched into one "go test -overlay" run per package.
func writeReplays(P *Program, dir, prop string, obls []*Obligation) []string {
	os.MkdirAll(dir, 0o755)
	type job struct {
		o    *Obligation
		rf   *ReplayFile
		vals map[string]string
		t    *replayTest
		name string
	}
	var jobs []*job
	byPkg := map[string][]*job{}
	for i, o := range obls {
		rf := &ReplayFile{Property: prop, Obligation: o.Name, Kind: o.Kind, Function: o.Fn, Clause: o.Clause, Answer: o.Answer, Solver: o.Solver, SolverOut: truncate(o.Model, 20000)}
		j := &job{o: o, rf: rf, name: fmt.Sprintf("TestGovcReplay_%d", i)}
		jobs = append(jobs, j)
		if o.Answer != "sat" {
			continue
		}
		j.vals = parseModel(o.Model)
		rf.Inputs = map[string]string{}
		for _, mv := range o.model {
			if v, ok := j.vals[mv.Term]; ok {
				rf.Inputs[mv.Name] = v
			}
		}
		t, err := P.buildReplayTest(o, j.vals)
		if err != nil {
			rf.Output = "replay not constructible: " + err.Error()
			continue
		}
		j.t = t
		for k, v := range t.inputs {
			rf.Inputs[k] = v
		}
		rf.GoTest = assembleTestFile(t.pkg, []*replayTest{t}, []string{"TestGovcReplay"})
		rf.Cmd = "go test -overlay <ov.json> -vet=off -timeout 60s -run ^TestGovcReplay -count=1 -v ./" + t.pkg + "/   (or: govc replay <this file>)"
		byPkg[t.pkg] = append(byPkg[t.pkg], j)
	}
	for pkg, js := range byPkg {
		var ts []*replayTest
		var names []string
		for _, j := range js {
			ts = append(ts, j.t)
			names = append(names, j.name)
		}
		out, _ := runGoTest(P.repo, pkg+".x", assembleTestFile(pkg, ts, names))
		secs := splitTestOutput(out)
		for _, j := range js {
			sec, ok := secs[j.name]
			if !ok {
				j.rf.Output = "replay did not run: " + truncate(out, 3000)
				continue
			}
			judgeReplay(j.rf, j.o, j.vals, sec)
			j.o.replayed = j.rf.Reproduced
		}
	}
	var paths []string
	for _, j := range jobs {
		path := filepath.Join(dir, sanitize(j.o.Name)+".json")
		b, _ := json.MarshalIndent(j.rf, "", " ")
		os.WriteFile(path, append(b, '\n'), 0o644)
		paths = append(paths, path)
	}
	return paths
}

func truncate(s string, n int) string {
	if len(s) > n {
		return s[:n] + "...[truncated]"
	}
	return s
}

func cmdReplay(args []string) int {
	if len(args) < 1 {
		usage()
	}
	b, err := os.ReadFile(args[0])
	if err != nil {
		fmt.Fprintln(os.Stderr, err)
		return 2
	}
	var rf ReplayFile
	if err := json.Unmarshal(b, &rf); err != nil {
		fmt.Fprintln(os.Stderr, err)
		return 2
	}
	fmt.Printf("obligation %s (%s)\nclause: %s\nsolver: %s -> %s\n", rf.Obligation, rf.Kind, rf.Clause, rf.Solver, rf.Answer)
	if rf.GoTest == "" {
		fmt.Println("no executable replay (no-failing-input-found); solver output follows")
		fmt.Println(rf.SolverOut)
		return 1
	}
	out, failed := runGoTest("/repo", rf.Function, rf.GoTest)
	fmt.Println(out)
	if failed {
		fmt.Println("REPRODUCED on the real code")
		return 1
	}
	fmt.Println("not reproduced")
	return 0
}
