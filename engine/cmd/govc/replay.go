package main

import (
	"encoding/json"
	"fmt"
	"os"
	"path/filepath"
)

type ReplayFile struct {
	Property   string            `json:"property"`
	Obligation string            `json:"obligation"`
	Kind       string            `json:"kind"`
	Function   string            `json:"function"`
	Clause     string            `json:"clause"`
	Answer     string            `json:"solver_answer"`
	Solver     string            `json:"solver"`
	Inputs     map[string]string `json:"model_inputs,omitempty"`
	GoTest     string            `json:"go_test,omitempty"`
	Cmd        string            `json:"replay_cmd,omitempty"`
	Output     string            `json:"replay_output,omitempty"`
	Reproduced bool              `json:"reproduced_on_real_code"`
	SolverOut  string            `json:"solver_output"`
}

func writeReplay(P *Program, dir, prop string, o *Obligation) string {
	os.MkdirAll(dir, 0o755)
	rf := &ReplayFile{Property: prop, Obligation: o.Name, Kind: o.Kind, Function: o.Fn, Clause: o.Clause, Answer: o.Answer, Solver: o.Solver, SolverOut: truncate(o.Model, 20000)}
	if o.Answer == "sat" {
		vals := parseModel(o.Model)
		rf.Inputs = map[string]string{}
		for _, mv := range o.model {
			if v, ok := vals[mv.Term]; ok {
				rf.Inputs[mv.Name] = v
			}
		}
		tryReplay(P, rf, o, vals)
		o.replayed = rf.Reproduced
	}
	path := filepath.Join(dir, sanitize(o.Name)+".json")
	b, _ := json.MarshalIndent(rf, "", " ")
	os.WriteFile(path, append(b, '\n'), 0o644)
	return path
}

func truncate(s string, n int) string {
	if len(s) > n {
		return s[:n] + "...[truncated]"
	}
	return s
}

func cmdReplay(args []string) int {
	if len(args) < 1 {
		usage()
	}
	b, err := os.ReadFile(args[0])
	if err != nil {
		fmt.Fprintln(os.Stderr, err)
		return 2
	}
	var rf ReplayFile
	if err := json.Unmarshal(b, &rf); err != nil {
		fmt.Fprintln(os.Stderr, err)
		return 2
	}
	fmt.Printf("obligation %s (%s)\nclause: %s\nsolver: %s -> %s\n", rf.Obligation, rf.Kind, rf.Clause, rf.Solver, rf.Answer)
	if rf.GoTest == "" {
		fmt.Println("no executable replay (no-failing-input-found); solver output follows")
		fmt.Println(rf.SolverOut)
		return 1
	}
	out, failed := runGoTest("/repo", rf.Function, rf.GoTest)
	fmt.Println(out)
	if failed {
		fmt.Println("REPRODUCED on the real code")
		return 1
	}
	fmt.Println("not reproduced")
	return 0
}
