package main

// Symbolic execution of go/ssa (naive form) over the loop-cut CFG.

import (
	"regexp"
	"fmt"
	"go/token"
	"go/types"
	"os"
	"sort"
	"strings"

	"golang.org/x/tools/go/ssa"
)

type State struct {
	cells map[*Cell]string
	heap  *Heap
	path  string
}

func (s *State) clone() *State {
	n := &State{cells: make(map[*Cell]string, len(s.cells)), heap: s.heap.clone(), path: s.path}
	for k, v := range s.cells {
		n.cells[k] = v
	}
	return n
}

type deferRec struct {
	site  *ssa.Defer
	flag  *Cell // Bool cell: registered?
	fnVal Val
	args  []Val
	cond  string
}

type retRec struct {
	st   *State
	vals []Val
	pos  string
}

type loopInfo struct {
	ord     int
	header  *ssa.BasicBlock
	blocks  map[*ssa.BasicBlock]bool
	spec    *LoopSpec
	measure string // decreases measure at header
	modCell map[*ssa.Alloc]bool
	heapAll bool
	heapKey map[string]bool
	preSt *State // state on the entry edge (for before(k, e))
	hdrSt   *State
	// for keys modified only by direct stores: the base values (slices / pointers) stored through
	keyBases   map[string][]ssa.Value
	keyUnknown map[string]bool
}

type Frame struct {
	g              *Gen
	fn             *ssa.Function
	regs           map[ssa.Value]Val
	cells          map[*ssa.Alloc]*Cell
	byName         map[string][]*ssa.Alloc
	params         []Val
	freeVars       []Val
	defers         []*deferRec
	rets           []retRec
	depth          int
	top            bool
	con            *Contract
	entry          *State
	loops          map[*ssa.BasicBlock]*loopInfo
	nopanic        bool
	unsupp         []string
	inFrom         map[*State]*ssa.BasicBlock
	deadVals       map[*ssa.Alloc]Val
	curCall        ssa.CallInstruction // the call instruction being executed (for per-site callsite clauses)
	callOrd        map[ssa.CallInstruction]int
	lastFrameParts map[string]string
	allowedMemo    map[string][]string
	allowAllMemo   map[string]bool
	varargs        map[string][]Val // slice term -> the values stored into the variadic array it was made from
	arrElems       map[*Cell]map[int64]Val
}

type engineError struct{ msg string }

func (e engineError) Error() string { return e.msg }

func fail(f string, a ...interface{}) { panic(engineError{fmt.Sprintf(f, a...)}) }

func (g *Gen) newFrame(fn *ssa.Function, depth int) *Frame {
	fr := &Frame{g: g, fn: fn, regs: map[ssa.Value]Val{}, cells: map[*ssa.Alloc]*Cell{}, byName: map[string][]*ssa.Alloc{}, depth: depth,
		loops: map[*ssa.BasicBlock]*loopInfo{}}
	if fn == nil {
		return fr
	}
	for _, b := range fn.Blocks {
		for _, in := range b.Instrs {
			if a, ok := in.(*ssa.Alloc); ok && a.Comment != "" {
				fr.byName[a.Comment] = append(fr.byName[a.Comment], a)
			}
		}
	}
	return fr
}

// ---- CFG helpers -------------------------------------------------------------------------

func isBackEdge(from, to *ssa.BasicBlock) bool { return to.Dominates(from) }

func rpo(fn *ssa.Function) []*ssa.BasicBlock {
	seen := map[*ssa.BasicBlock]bool{}
	var post []*ssa.BasicBlock
	var dfs func(b *ssa.BasicBlock)
	dfs = func(b *ssa.BasicBlock) {
		seen[b] = true
		for _, s := range b.Succs {
			if isBackEdge(b, s) || seen[s] {
				continue
			}
			dfs(s)
		}
		post = append(post, b)
	}
	dfs(fn.Blocks[0])
	if fn.Recover != nil && !seen[fn.Recover] {
		// recover block: only reached after a recovered panic; not modelled on panic-free paths
	}
	for i, j := 0, len(post)-1; i < j; i, j = i+1, j-1 {
		post[i], post[j] = post[j], post[i]
	}
	return post
}

func (fr *Frame) findLoops() {
	fn := fr.fn
	var headers []*ssa.BasicBlock
	hset := map[*ssa.BasicBlock]bool{}
	for _, b := range fn.Blocks {
		for _, s := range b.Succs {
			if isBackEdge(b, s) && !hset[s] {
				hset[s] = true
				headers = append(headers, s)
			}
		}
	}
	sort.Slice(headers, func(i, j int) bool { return headers[i].Index < headers[j].Index })
	for i, h := range headers {
		li := &loopInfo{ord: i + 1, header: h, blocks: map[*ssa.BasicBlock]bool{h: true}, modCell: map[*ssa.Alloc]bool{}, heapKey: map[string]bool{},
			keyBases: map[string][]ssa.Value{}, keyUnknown: map[string]bool{}}
		// natural loop: all nodes that reach a back-edge source without passing through h
		var work []*ssa.BasicBlock
		for _, p := range h.Preds {
			if isBackEdge(p, h) {
				if !li.blocks[p] {
					li.blocks[p] = true
					work = append(work, p)
				}
			}
		}
		for len(work) > 0 {
			b := work[len(work)-1]
			work = work[:len(work)-1]
			for _, p := range b.Preds {
				if !li.blocks[p] {
					li.blocks[p] = true
					work = append(work, p)
				}
			}
		}
		if fr.con != nil {
			li.spec = fr.con.Loops[li.ord]
			if li.spec == nil {
				li.spec = fr.con.Loops[0] // "loop * ..." wildcard
			}
		}
		fr.loops[h] = li
	}
}

// rootAlloc walks an address expression back to a local Alloc (nil if it is not cell-rooted).
func rootAlloc(v ssa.Value) *ssa.Alloc {
	for {
		switch x := v.(type) {
		case *ssa.Alloc:
			return x
		case *ssa.FieldAddr:
			v = x.X
		case *ssa.IndexAddr:
			v = x.X
		default:
			return nil
		}
	}
}

// analyseLoopMods computes what a loop body may modify (syntactically, conservatively).
func (fr *Frame) analyseLoopMods(li *loopInfo) {
	closureCells := map[*ssa.Alloc]bool{}
	for _, b := range fr.fn.Blocks {
		for _, in := range b.Instrs {
			if mc, ok := in.(*ssa.MakeClosure); ok {
				cf, _ := mc.Fn.(*ssa.Function)
				for i, bv := range mc.Bindings {
					if a := rootAlloc(bv); a != nil {
						if cf != nil && i < len(cf.FreeVars) && onlyRead(cf.FreeVars[i]) {
							continue // the closure only reads this variable
						}
						closureCells[a] = true
					}
				}
			}
		}
	}
	hasCall := false
	for b := range li.blocks {
		for _, in := range b.Instrs {
			switch x := in.(type) {
			case *ssa.Alloc:
				li.modCell[x] = true
			case *ssa.Store:
				if a := rootAlloc(x.Addr); a != nil {
					li.modCell[a] = true
				} else {
					fr.storeKeys(x.Addr, li)
				}
			case *ssa.MapUpdate:
				li.heapAll = true
			case *ssa.Call:
				if fr.g.callIsPure(x.Common()) {
					continue
				}
				hasCall = true
				before := map[string]bool{}
				for k := range li.heapKey {
					before[k] = true
				}
				fr.g.callHeapEffects(x.Common(), li, 0)
				for k := range li.heapKey {
					if !before[k] {
						li.keyUnknown[k] = true
					}
				}
				// keys already present may also be touched by the call: conservatively unknown
				fr.g.markCallKeysUnknown(x.Common(), li)
				// pointer args to locals
				for _, a := range x.Call.Args {
					if al := rootAlloc(a); al != nil {
						li.modCell[al] = true
					}
				}
			case *ssa.Defer, *ssa.Go, *ssa.Send, *ssa.Select:
				li.heapAll = true
			}
		}
	}
	if hasCall {
		for a := range closureCells {
			li.modCell[a] = true
		}
	}
}

// loopMayAllocate: some instruction of the loop body may create an object.
func (fr *Frame) loopMayAllocate(li *loopInfo) bool {
	for b := range li.blocks {
		if fr.blockMayAllocate(b, 0) {
			return true
		}
	}
	return false
}

func (fr *Frame) blockMayAllocate(b *ssa.BasicBlock, depth int) (res bool) {
	var in ssa.Instruction
	defer func() {
		if res && os.Getenv("GOVC_DEBUG") != "" {
			fmt.Fprintf(os.Stderr, "mayAllocate(depth %d): %v in %s\n", depth, in, b.Parent().Name())
		}
	}()
	for _, in = range b.Instrs {
		switch x := in.(type) {
		case *ssa.Alloc:
			if x.Heap {
				return true
			}
		case *ssa.MakeSlice, *ssa.MakeMap, *ssa.MakeChan, *ssa.MakeClosure, *ssa.Defer, *ssa.Go:
			return true
		case *ssa.Call:
			if b, ok := x.Call.Value.(*ssa.Builtin); ok {
				switch b.Name() {
				case "len", "cap", "min", "max", "copy", "delete", "print", "println", "panic", "recover", "ssa:wrapnilchk", "ssa:deferstack":
					continue
				}
				return true
			}
			if fr.g.callIsPure(x.Common()) && !typeHasRef(x.Type(), 0, true) {
				continue
			}
			// a library function without a contract is executed in place: look inside
			if fn := x.Call.StaticCallee(); fn != nil && !x.Call.IsInvoke() && depth < 4 && len(fn.Blocks) > 0 && fr.g.P.contracts[funcKey(fn)] == nil && fn.Pkg != nil && fr.g.P.spkgs[fn.Pkg.Pkg.Name()] == fn.Pkg {
				inner := false
				for _, cb := range fn.Blocks {
					if fr.blockMayAllocate(cb, depth+1) {
						inner = true
						break
					}
				}
				if !inner {
					continue
				}
			}
			return true
		}
	}
	return false
}

// onlyRead: every use of the address v (a captured variable, or a field/element address derived from it) is a load.
func onlyRead(v ssa.Value) bool {
	refs := v.Referrers()
	if refs == nil {
		return false
	}
	for _, r := range *refs {
		switch x := r.(type) {
		case *ssa.UnOp:
			if x.Op != token.MUL {
				return false
			}
		case *ssa.FieldAddr:
			if x.X != v || !onlyRead(x) {
				return false
			}
		case *ssa.IndexAddr:
			if x.X != v || !onlyRead(x) {
				return false
			}
		case *ssa.DebugRef:
		default:
			return false
		}
	}
	return true
}

func (fr *Frame) storeKeys(addr ssa.Value, li *loopInfo) {
	g := fr.g
	switch x := addr.(type) {
	case *ssa.FieldAddr:
		pt := x.X.Type().Underlying().(*types.Pointer)
		// walk to the outermost struct reached by a pointer
		if _, isFA := x.X.(*ssa.FieldAddr); isFA {
			fr.storeKeys(x.X, li)
			return
		}
		if _, isIA := x.X.(*ssa.IndexAddr); isIA {
			fr.storeKeys(x.X, li)
			return
		}
		k, _ := g.fieldKey(pt.Elem(), x.Field)
		li.heapKey[k] = true
		if li.keyBases != nil {
			li.keyBases[k] = append(li.keyBases[k], x.X)
		}
	case *ssa.IndexAddr:
		switch xt := x.X.Type().Underlying().(type) {
		case *types.Slice:
			k, _ := g.elemKey(xt.Elem())
			li.heapKey[k] = true
			if li.keyBases != nil {
				li.keyBases[k] = append(li.keyBases[k], x.X)
			}
		case *types.Pointer:
			if _, isFA := x.X.(*ssa.FieldAddr); isFA {
				fr.storeKeys(x.X, li)
				return
			}
			if at, ok := xt.Elem().Underlying().(*types.Array); ok {
				k, _ := g.elemKey(at.Elem())
				li.heapKey[k] = true
				if li.keyUnknown != nil {
					li.keyUnknown[k] = true
				}
			} else {
				li.heapAll = true
			}
		default:
			li.heapAll = true
		}
	default:
		if pt, ok := addr.Type().Underlying().(*types.Pointer); ok {
			if st, ok := pt.Elem().Underlying().(*types.Struct); ok {
				for i := 0; i < st.NumFields(); i++ {
					k, _ := g.fieldKey(pt.Elem(), i)
					li.heapKey[k] = true
					if li.keyUnknown != nil {
						li.keyUnknown[k] = true
					}
				}
				return
			}
			k, _ := g.ptrKey(pt.Elem())
			li.heapKey[k] = true
			if li.keyUnknown != nil {
				li.keyUnknown[k] = true
			}
			return
		}
		li.heapAll = true
	}
}

// ---- running a function ------------------------------------------------------------------

type inEdge struct {
	st *State
}

func (fr *Frame) run(st0 *State) {
	g := fr.g
	fn := fr.fn
	if len(fn.Blocks) == 0 {
		fail("function %s has no body", fn)
	}
	fr.findLoops()
	order := rpo(fn)
	in := map[*ssa.BasicBlock][]*State{}
	fr.inFrom = map[*State]*ssa.BasicBlock{}
	in[fn.Blocks[0]] = []*State{st0}
	for _, b := range order {
		ins := in[b]
		delete(in, b)
		if len(ins) == 0 {
			continue
		}
		// phi nodes (short-circuit boolean expressions): select by incoming edge
		for _, instr := range b.Instrs {
			phi, ok := instr.(*ssa.Phi)
			if !ok {
				break
			}
			expr := ""
			var pt types.Type = phi.Type()
			for k := len(ins) - 1; k >= 0; k-- {
				from := fr.inFrom[ins[k]]
				idx := -1
				for pi, p := range b.Preds {
					if p == from {
						idx = pi
					}
				}
				if idx < 0 {
					fail("phi: unknown predecessor in %s", fr.fn)
				}
				v := fr.val(phi.Edges[idx])
				if expr == "" {
					expr = v.S
				} else {
					expr = ite(ins[k].path, v.S, expr)
				}
			}
			fr.set(phi, Val{T: pt, S: g.define("phi", g.S.sortOf(pt), expr)})
		}
		st := fr.mergeStates(ins)
		if st.path == "false" {
			continue
		}
		if li := fr.loops[b]; li != nil {
			st = fr.enterLoop(li, st)
		}
		var term ssa.Instruction
		dead := false
		for _, instr := range b.Instrs {
			switch instr.(type) {
			case *ssa.If, *ssa.Jump, *ssa.Return, *ssa.Panic:
				term = instr
				continue
			}
			if !fr.exec(st, instr) {
				dead = true
				break
			}
		}
		if dead {
			continue
		}
		switch t := term.(type) {
		case *ssa.Jump:
			fr.flow(b, b.Succs[0], st, "true", in)
		case *ssa.If:
			c := fr.val(t.Cond).S
			c = g.define("br", "Bool", c)
			fr.flow(b, b.Succs[0], st.clone(), c, in)
			fr.flow(b, b.Succs[1], st, not(c), in)
		case *ssa.Return:
			var vals []Val
			for _, r := range t.Results {
				vals = append(vals, fr.val(r))
			}
			fr.rets = append(fr.rets, retRec{st: st, vals: vals, pos: fr.g.posOf(t)})
		case *ssa.Panic:
			fr.safety(st, "panic", "false", "explicit panic")
		case nil:
			// block without terminator (unreachable)
		}
	}
}

func (fr *Frame) flow(from, to *ssa.BasicBlock, st *State, cond string, in map[*ssa.BasicBlock][]*State) {
	g := fr.g
	p := and(st.path, cond)
	if p == "false" {
		return
	}
	st.path = g.define("p", "Bool", p)
	if isBackEdge(from, to) {
		li := fr.loops[to]
		fr.closeLoop(li, st)
		return
	}
	fr.inFrom[st] = from
	in[to] = append(in[to], st)
}

var reTempName = regexp.MustCompile(`^t\d+$`)

func (fr *Frame) mergeStates(ins []*State) *State {
	g := fr.g
	if len(ins) == 1 {
		return ins[0]
	}
	var paths []string
	for _, s := range ins {
		paths = append(paths, s.path)
	}
	out := &State{cells: map[*Cell]string{}, path: g.define("p", "Bool", or(paths...))}
	// cells
	seen := map[*Cell]bool{}
	var cells []*Cell
	for _, s := range ins {
		for c := range s.cells {
			if c.name == "defer$flag" {
				for _, s2 := range ins {
					if _, ok := s2.cells[c]; !ok {
						s2.cells[c] = "false"
					}
				}
			}
			if !seen[c] {
				seen[c] = true
				cells = append(cells, c)
			}
		}
	}
	sort.Slice(cells, func(i, j int) bool { return cells[i].id < cells[j].id })
	for _, c := range cells {
		var vals []string
		var conds []string
		for _, s := range ins {
			if v, ok := s.cells[c]; ok {
				vals = append(vals, v)
				conds = append(conds, s.path)
			} else if c.name != "" && c.name != "defer$flag" && !reTempName.MatchString(c.name) {
				// a source variable whose declaration was not reached on this path: specifications read its zero value
				vals = append(vals, g.S.zero(c.t))
				conds = append(conds, s.path)
			}
		}
		same := true
		for _, v := range vals {
			if v != vals[0] {
				same = false
			}
		}
		if same {
			out.cells[c] = vals[0]
			continue
		}
		expr := vals[len(vals)-1]
		for i := len(vals) - 2; i >= 0; i-- {
			expr = ite(conds[i], vals[i], expr)
		}
		out.cells[c] = g.define("m", g.S.sortOf(c.t), expr)
	}
	var parts []epochPart
	for _, s := range ins {
		parts = append(parts, epochPart{cond: s.path, h: s.heap})
	}
	out.heap = g.mergeHeaps(parts)
	return out
}

// ---- loops -------------------------------------------------------------------------------

// rangeInvariant: for the loops go/ssa builds for "range" over a slice, string or integer, the hidden index cell
// satisfies -1 <= rangeindex < len. It is added to the user's invariants (and proved like them).
func (fr *Frame) rangeInvariant(li *loopInfo, st *State) string {
	h := li.header
	if h.Comment != "rangeindex.loop" || len(h.Instrs) < 4 {
		return ""
	}
	ld, ok := h.Instrs[0].(*ssa.UnOp)
	if !ok {
		return ""
	}
	a, ok := ld.X.(*ssa.Alloc)
	if !ok {
		return ""
	}
	var lenV ssa.Value
	for _, in := range h.Instrs {
		if b, ok := in.(*ssa.BinOp); ok && b.Op == token.LSS {
			lenV = b.Y
		}
	}
	if lenV == nil {
		return ""
	}
	c := fr.cells[a]
	if c == nil {
		return ""
	}
	cur, live := st.cells[c]
	if !live {
		return ""
	}
	lv, ok := fr.regs[lenV]
	if !ok {
		if cst, isC := lenV.(*ssa.Const); isC {
			lv = fr.g.constVal(cst)
		} else {
			return ""
		}
	}
	g := fr.g
	intT := types.Typ[types.Int]
	return and(g.intCmp("<=", g.S.intConst(-1, 64), cur, intT), g.intCmp("<", cur, lv.S, intT))
}

func (fr *Frame) enterLoop(li *loopInfo, st *State) *State {
	g := fr.g
	if !fr.top {
		fail("loop in inlined function %s", fr.fn)
	}
	if li.spec == nil {
		// no clause for this loop: the weakest invariant ("true" plus the function's frame) is used; everything the
		// loop may modify is unknown afterwards
		li.spec = &LoopSpec{}
		g.note(fmt.Sprintf("loop %d of %s has no invariant: 'true' is used", li.ord, g.fnKey))
	}
	fr.analyseLoopMods(li)
	li.preSt = st.clone()
	// 1. invariants hold on entry
	if ri := fr.rangeInvariant(li, st); ri != "" {
		g.oblige("inv0", fmt.Sprintf("L%d.range", li.ord), st.path, ri, "range loop index is within -1..len-1 (entry)")
	}
	for i, inv := range li.spec.Invariants {
		t := fr.evalBool(inv.Expr, &specCtx{fr: fr, st: st, old: fr.entry, kind: ctxInv})
		g.oblige("inv0", fmt.Sprintf("L%d.%d", li.ord, i+1), st.path, t, "loop "+fmt.Sprint(li.ord)+" invariant (entry): "+inv.Text)
	}
	// 2. havoc modified state
	ns := st.clone()
	var allocs []*ssa.Alloc
	for a := range li.modCell {
		allocs = append(allocs, a)
	}
	sort.Slice(allocs, func(i, j int) bool {
		return allocs[i].Pos() < allocs[j].Pos() || (allocs[i].Pos() == allocs[j].Pos() && allocs[i].Name() < allocs[j].Name())
	})
	for _, a := range allocs {
		c := fr.cells[a]
		if c == nil {
			continue // allocated inside the loop
		}
		if _, live := ns.cells[c]; !live {
			continue
		}
		v := g.declare("lh_"+sanitize(c.name), g.S.sortOf(c.t))
		g.assume(g.typeRange(v, c.t))
		ns.cells[c] = v
	}
	if li.heapAll {
		ns.heap = g.havocHeap(ns.heap, false)
		// ghosts may also change through calls
		for _, k := range g.heapKeys() {
			if strings.HasPrefix(k, "G:") && k != g.topKey() {
				ns.heap.set(k, g.declare("lg", g.heapSorts[k]))
			}
		}
		g.bumpTop(ns)
	} else {
		if fr.loopMayAllocate(li) {
			g.bumpTop(ns) // earlier iterations may have allocated
		}
		headTop := ns.heap.get(g, g.topKey())
		var keys []string
		for k := range li.heapKey {
			keys = append(keys, k)
		}
		sort.Strings(keys)
		for _, k := range keys {
			oldv := ns.heap.get(g, k)
			nv := g.declare("lhp", g.heapSorts[k])
			ns.heap.set(k, nv)
			if !strings.HasPrefix(k, "G:") {
				g.heapRefBound(nv, k, headTop)
			}
			if refs, ok := fr.loopStoreRefs(li, k, ns); ok {
				// only objects reached through these (loop-invariant) bases are written: everything else keeps its value
				r := g.fresh("lr")
				var cs []string
				for _, ref := range refs {
					cs = append(cs, "(not (= "+r+" "+ref+"))")
				}
				g.assume("(forall ((" + r + " Int)) (! (=> " + and(cs...) + " (= (select " + nv + " " + r + ") (select " + oldv + " " + r + "))) :pattern ((select " + nv + " " + r + "))))")
			}
		}
	}
	// pointers held in havocked locals refer to objects that exist at the loop head
	for _, a := range allocs {
		if c := fr.cells[a]; c != nil {
			if v, live := ns.cells[c]; live && strings.HasPrefix(v, "lh_") {
				g.knownRef(ns, v, c.t)
			}
		}
	}
	// 3. the function's frame (assigns clause) is an implicit loop invariant
	if fr.con != nil && fr.con.HasAssigns {
		g.assumeUnder(ns.path, fr.frameFormula(ns))
		if li.heapAll {
			// heap keys first met later are unknown at the loop head as well: they get their frame assumption when
			// the loop-head value of the key comes into being
			allowed, allowAll := fr.frameAllowed()
			hs := ns.clone()
			done := map[string]bool{}
			for _, k := range g.heapKeys() {
				done[k] = true
			}
			ns.heap.base.onNew = func(k string) {
				if done[k] {
					return
				}
				done[k] = true
				if f := fr.frameForKey(hs, k, allowed, allowAll); f != "" {
					g.assumeUnder(hs.path, f)
				}
			}
		}
	}
	// 4. assume invariants
	if ri := fr.rangeInvariant(li, ns); ri != "" {
		g.assumeUnder(ns.path, ri)
	}
	for _, inv := range li.spec.Invariants {
		t := fr.evalBool(inv.Expr, &specCtx{fr: fr, st: ns, old: fr.entry, kind: ctxInv, assumed: true})
		g.assumeUnder(ns.path, t)
	}
	if li.spec.Decreases != nil {
		m := fr.evalMath(li.spec.Decreases.Expr, &specCtx{fr: fr, st: ns, old: fr.entry, kind: ctxInv})
		li.measure = g.define("meas", g.mathSort(), m)
	}
	li.hdrSt = ns
	return ns
}

// loopStoreRefs: if key k is modified in the loop only by direct stores through bases that do not change in the
// loop, return the reference terms of those bases.
func (fr *Frame) loopStoreRefs(li *loopInfo, k string, ns *State) ([]string, bool) {
	if li.keyUnknown[k] || len(li.keyBases[k]) == 0 {
		return nil, false
	}
	var refs []string
	for _, b := range li.keyBases[k] {
		var term string
		var t types.Type = b.Type()
		switch x := b.(type) {
		case *ssa.UnOp:
			a, ok := x.X.(*ssa.Alloc)
			if !ok || li.modCell[a] {
				return nil, false
			}
			c := fr.cells[a]
			if c == nil {
				return nil, false
			}
			v, live := ns.cells[c]
			if !live {
				return nil, false
			}
			term = v
		default:
			if in, ok := b.(ssa.Instruction); ok && li.blocks[in.Block()] {
				return nil, false
			}
			rv, ok := fr.regs[b]
			if !ok || rv.S == "" {
				return nil, false
			}
			term = rv.S
		}
		if _, isSlice := t.Underlying().(*types.Slice); isSlice {
			refs = append(refs, "(sl_ref "+term+")")
		} else {
			refs = append(refs, term)
		}
	}
	return refs, true
}

func (fr *Frame) closeLoop(li *loopInfo, st *State) {
	g := fr.g
	if fr.con != nil && fr.con.HasAssigns {
		if os.Getenv("GOVC_FRAMESPLIT") != "" {
			fr.frameFormula(st)
			for k, gl := range fr.lastFrameParts {
				g.oblige("frame", fmt.Sprintf("L%d.%s", li.ord, sanitize(k)), st.path, gl, "assigns clause after loop iteration (key "+k+")")
			}
		} else {
			g.oblige("frame", fmt.Sprintf("L%d", li.ord), st.path, fr.frameFormula(st), "assigns clause holds after every loop iteration")
		}
	}
	if ri := fr.rangeInvariant(li, st); ri != "" {
		g.oblige("inv", fmt.Sprintf("L%d.range", li.ord), st.path, ri, "range loop index is within -1..len-1 (preserved)")
	}
	for i, inv := range li.spec.Invariants {
		t := fr.evalBool(inv.Expr, &specCtx{fr: fr, st: st, old: fr.entry, kind: ctxInv})
		g.oblige("inv", fmt.Sprintf("L%d.%d", li.ord, i+1), st.path, t, "loop "+fmt.Sprint(li.ord)+" invariant (preserved): "+inv.Text)
	}
	if li.spec.Decreases != nil {
		m := fr.evalMath(li.spec.Decreases.Expr, &specCtx{fr: fr, st: st, old: fr.entry, kind: ctxInv})
		zero := g.mathConst(bigZero)
		goal := and(g.mathBin(">=", li.measure, zero), g.mathBin("<", m, li.measure))
		g.oblige("dec", fmt.Sprintf("L%d", li.ord), st.path, goal, "loop "+fmt.Sprint(li.ord)+" decreases: "+li.spec.Decreases.Text)
	}
}

// ---- safety ------------------------------------------------------------------------------

// safety emits a no-panic obligation (when the function is nopanic) and then assumes the guard
// (execution only continues past the instruction when the guard held).
func (fr *Frame) safety(st *State, site, guard, what string) {
	g := fr.g
	if guard == "true" {
		return
	}
	if fr.nopanic {
		g.oblige("safety", site, st.path, guard, what)
	}
	if guard == "false" {
		st.path = "false"
		return
	}
	st.path = g.define("p", "Bool", and(st.path, guard))
}

// ---- values ------------------------------------------------------------------------------

func (fr *Frame) val(v ssa.Value) Val {
	g := fr.g
	switch x := v.(type) {
	case *ssa.Const:
		return g.constVal(x)
	case *ssa.Function:
		return Val{T: x.Type(), Fn: x, S: "1"}
	case *ssa.Global:
		return Val{T: x.Type(), A: g.globalAddr(x)}
	case *ssa.Builtin:
		return Val{T: x.Type()}
	case *ssa.Parameter:
		if r, ok := fr.regs[v]; ok {
			return r
		}
	case *ssa.FreeVar:
		if r, ok := fr.regs[v]; ok {
			return r
		}
	}
	if r, ok := fr.regs[v]; ok {
		return r
	}
	fail("use of undefined value %s (%T) in %s", v.Name(), v, fr.fn)
	return Val{}
}

func (fr *Frame) set(v ssa.Value, x Val) {
	if x.T == nil {
		x.T = v.Type()
	}
	fr.regs[v] = x
}

func (g *Gen) globalAddr(gl *ssa.Global) *Addr {
	// globals are modelled as heap pointer cells with a fixed ref per global
	name := "glob_" + sanitize(gl.Pkg.Pkg.Name()+"."+gl.Name())
	if _, ok := g.globals[name]; !ok {
		g.globals[name] = name
		g.emit(fmt.Sprintf("(declare-const %s Int)", name))
		g.assume("(< " + name + " 0)") // distinct region from heap objects
	}
	el := gl.Type().(*types.Pointer).Elem()
	if at, ok := el.Underlying().(*types.Array); ok {
		return &Addr{ref: name, root: at.Elem(), elems: true}
	}
	return &Addr{ref: name, root: el}
}

// havocVal creates an unconstrained value of type t (with type-range assumptions).
func (g *Gen) havocVal(prefix string, t types.Type) Val {
	if tup, ok := t.(*types.Tuple); ok {
		var vs []Val
		for i := 0; i < tup.Len(); i++ {
			vs = append(vs, g.havocVal(prefix, tup.At(i).Type()))
		}
		return Val{T: t, Tup: vs}
	}
	v := g.declare(prefix, g.S.sortOf(t))
	g.assume(g.typeRange(v, t))
	return Val{T: t, S: v}
}

func (g *Gen) topKey() string { return g.ghostKey("$top", "Int") }

func (g *Gen) bumpTop(st *State) {
	k := g.topKey()
	old := st.heap.get(g, k)
	n := g.declare("top", "Int")
	g.assume("(>= " + n + " " + old + ")")
	st.heap.set(k, n)
}

// allocRef returns a fresh non-nil reference distinct from everything allocated or loaded before.
func (g *Gen) allocRef(st *State) string {
	k := g.topKey()
	old := st.heap.get(g, k)
	r := g.define("ref", "Int", "(+ "+old+" 1)")
	st.heap.set(k, r)
	if g.freshRefs == nil {
		g.freshRefs = map[string]bool{}
	}
	g.freshRefs[r] = true
	return r
}

// knownRef records that pointer value v existed before any later allocation.
func (g *Gen) knownRef(st *State, v string, t types.Type) {
	switch u := t.Underlying().(type) {
	case *types.Struct:
		for i := 0; i < u.NumFields(); i++ {
			ft := u.Field(i).Type()
			switch ft.Underlying().(type) {
			case *types.Pointer, *types.Slice, *types.Struct, *types.Interface:
				g.knownRef(st, g.S.structField(t, v, i), ft)
			}
		}
	case *types.Interface:
		g.S.needRef = true
		g.assumeUnder(st.path, "(<= (iface_ref "+v+") "+st.heap.get(g, g.topKey())+")")
	case *types.Pointer:
		g.assumeUnder(st.path, "(<= "+v+" "+st.heap.get(g, g.topKey())+")")
	case *types.Slice:
		g.assumeUnder(st.path, "(<= (sl_ref "+v+") "+st.heap.get(g, g.topKey())+")")
	}
}

// ---- instruction execution ---------------------------------------------------------------

// exec returns false when the path became infeasible (after a failed guard with constant false).
func (fr *Frame) exec(st *State, instr ssa.Instruction) bool {
	g := fr.g
	switch x := instr.(type) {
	case *ssa.DebugRef:
	case *ssa.Alloc:
		fr.execAlloc(st, x)
	case *ssa.Store:
		addr := fr.val(x.Addr)
		v := fr.val(x.Val)
		a := g.addrOfPtr(addr)
		fr.nilCheck(st, addr, "store")
		if v.S == "" && v.A == nil && v.Fn == nil && len(v.Tup) == 0 {
			fail("store of value without term: %s in %s", x, fr.fn)
		}
		fr.storeVal(st, a, v)
	case *ssa.UnOp:
		fr.execUnOp(st, x)
	case *ssa.BinOp:
		fr.execBinOp(st, x)
	case *ssa.ChangeType:
		v := fr.val(x.X)
		v.T = x.Type()
		fr.set(x, v)
	case *ssa.Convert:
		fr.execConvert(st, x)
	case *ssa.MultiConvert:
		fr.set(x, g.havocVal("mconv", x.Type()))
		g.note("multiconvert havocked in " + fr.fn.String())
	case *ssa.ChangeInterface:
		v := fr.val(x.X)
		v.T = x.Type()
		fr.set(x, v)
	case *ssa.MakeInterface:
		v := fr.val(x.X)
		fr.set(x, Val{T: x.Type(), S: g.boxVal(st, v)})
	case *ssa.TypeAssert:
		fr.execTypeAssert(st, x)
	case *ssa.Extract:
		t := fr.val(x.Tuple)
		if x.Index >= len(t.Tup) {
			fail("extract from non-tuple %s", x)
		}
		fr.set(x, t.Tup[x.Index])
	case *ssa.FieldAddr:
		base := fr.val(x.X)
		fr.nilCheck(st, base, "field")
		a := g.addrOfPtr(base)
		pt := x.X.Type().Underlying().(*types.Pointer)
		fr.set(x, Val{T: x.Type(), A: a.extend(pathElem{field: x.Field, cont: pt.Elem()})})
	case *ssa.Field:
		base := fr.val(x.X)
		ft := x.Type()
		fr.set(x, Val{T: ft, S: g.S.structField(x.X.Type(), base.S, x.Field)})
	case *ssa.IndexAddr:
		fr.execIndexAddr(st, x)
	case *ssa.Index:
		fr.execIndex(st, x)
	case *ssa.Slice:
		fr.execSlice(st, x)
	case *ssa.Lookup:
		fr.execLookup(st, x)
	case *ssa.MapUpdate:
		m := fr.val(x.Map)
		fr.safety(st, "nilmap", "(not (= "+m.S+" 0))", "assignment to entry in nil map")
		g.mapUpdate(st, m, fr.val(x.Key), fr.val(x.Value))
	case *ssa.MakeMap:
		r := g.allocRef(st)
		fr.set(x, Val{T: x.Type(), S: r})
		g.mapInit(st, Val{T: x.Type(), S: r})
	case *ssa.MakeSlice:
		fr.execMakeSlice(st, x)
	case *ssa.MakeChan:
		fr.set(x, Val{T: x.Type(), S: g.allocRef(st)})
	case *ssa.MakeClosure:
		var binds []Val
		for _, b := range x.Bindings {
			binds = append(binds, fr.val(b))
		}
		fr.set(x, Val{T: x.Type(), Fn: x.Fn.(*ssa.Function), Bind: binds, S: "1"})
	case *ssa.Phi:
		// evaluated at block entry
	case *ssa.Call:
		fr.curCall = x
		res := fr.execCall(st, x.Common(), x)
		fr.curCall = nil
		if st.path == "false" {
			return false
		}
		fr.set(x, res)
	case *ssa.Defer:
		fr.execDefer(st, x)
	case *ssa.RunDefers:
		fr.runDefers(st)
	case *ssa.Range:
		fr.set(x, Val{T: x.Type(), S: "0", Tup: []Val{fr.val(x.X)}})
		g.note("range over map/string iterator abstracted in " + fr.fn.String())
	case *ssa.Next:
		fr.execNext(st, x)
	case *ssa.Go, *ssa.Send, *ssa.Select:
		fail("outside subset: %T in %s", instr, fr.fn)
	case *ssa.SliceToArrayPointer:
		fr.set(x, g.havocVal("s2a", x.Type()))
	default:
		fail("unsupported instruction %T in %s", instr, fr.fn)
	}
	return st.path != "false"
}

func (fr *Frame) nilCheck(st *State, p Val, what string) {
	if p.A != nil {
		return
	}
	if p.S == "" {
		return
	}
	fr.safety(st, "nil."+what, "(not (= "+p.S+" 0))", "nil pointer dereference ("+what+")")
}

func (fr *Frame) execAlloc(st *State, x *ssa.Alloc) {
	g := fr.g
	el := x.Type().(*types.Pointer).Elem()
	_, isStruct := el.Underlying().(*types.Struct)
	if x.Heap && isStruct && fr.escapes(x) {
		r := g.allocRef(st)
		v := Val{T: x.Type(), S: r}
		fr.set(x, v)
		g.store(st, &Addr{ref: r, root: el}, g.S.zero(el))
		return
	}
	c := fr.cells[x]
	if c == nil {
		g.nf++
		c = &Cell{id: g.nf, t: el, name: x.Comment, alloc: x}
		if c.name == "" {
			c.name = x.Name()
		}
		fr.cells[x] = c
	}
	st.cells[c] = g.S.zero(el)
	fr.set(x, Val{T: x.Type(), A: &Addr{cell: c, root: el}})
}

// escapes: the address of the allocation is used other than by load/store/field/index and closure capture.
func (fr *Frame) escapes(x *ssa.Alloc) bool {
	var visit func(v ssa.Value, depth int) bool
	visit = func(v ssa.Value, depth int) bool {
		refs := v.Referrers()
		if refs == nil {
			return true
		}
		for _, r := range *refs {
			switch u := r.(type) {
			case *ssa.Store:
				if u.Val == v {
					return true
				}
			case *ssa.UnOp, *ssa.DebugRef:
			case *ssa.FieldAddr:
				if depth < 4 && visit(u, depth+1) {
					return true
				}
			case *ssa.IndexAddr:
				if depth < 4 && visit(u, depth+1) {
					return true
				}
			case *ssa.MakeClosure:
				// captured by reference: stays a cell
			default:
				return true
			}
		}
		return false
	}
	return visit(x, 0)
}

func (fr *Frame) storeVal(st *State, a *Addr, v Val) {
	g := fr.g
	if a.cell != nil && len(a.path) == 1 && a.path[0].isIndex {
		if k, ok := isConstTerm(a.path[0].index); ok || strings.HasPrefix(a.path[0].index, "#x") {
			var idx int64
			if ok {
				idx = k.Int64()
			} else {
				fmt.Sscanf(a.path[0].index[2:], "%x", &idx)
			}
			if fr.arrElems == nil {
				fr.arrElems = map[*Cell]map[int64]Val{}
			}
			if fr.arrElems[a.cell] == nil {
				fr.arrElems[a.cell] = map[int64]Val{}
			}
			fr.arrElems[a.cell][idx] = v
		}
	}
	if v.Fn != nil && a.cell != nil && len(a.path) == 0 {
		// function value stored in a local: remember statically
		fr.fnCells()[a.cell] = v
		st.cells[a.cell] = "1"
		return
	}
	s := v.S
	if s == "" && v.A != nil {
		s = g.escapeAddr(st, v)
	}
	g.store(st, a, s)
}

var fnCellsMap = map[*Frame]map[*Cell]Val{}

func (fr *Frame) fnCells() map[*Cell]Val {
	m := fnCellsMap[fr]
	if m == nil {
		m = map[*Cell]Val{}
		fnCellsMap[fr] = m
	}
	return m
}

// escapeAddr: a structured address must become an opaque pointer term.
func (g *Gen) escapeAddr(st *State, v Val) string {
	if v.A != nil && v.A.cell == nil && len(v.A.path) == 0 && !v.A.elems {
		return v.A.ref
	}
	g.note("interior/local pointer escaped; treated as opaque non-nil pointer")
	r := g.declare("optr", "Int")
	g.assume("(> " + r + " 0)")
	return r
}

func (fr *Frame) execUnOp(st *State, x *ssa.UnOp) {
	g := fr.g
	v := fr.val(x.X)
	switch x.Op {
	case token.MUL: // load
		fr.nilCheck(st, v, "load")
		a := g.addrOfPtr(v)
		if a.cell != nil && len(a.path) == 0 {
			if fv, ok := fr.fnCells()[a.cell]; ok {
				fr.set(x, fv)
				return
			}
		}
		if gl, isG := x.X.(*ssa.Global); isG {
			if ct, ok := g.globalConstTerm(gl); ok {
				fr.set(x, Val{T: x.Type(), S: ct})
				return
			}
		}
		if ia, isIA := x.X.(*ssa.IndexAddr); isIA {
			if gl, isG := ia.X.(*ssa.Global); isG {
				if ct, ok := g.globalConstTerm(gl); ok {
					idx := fr.val(ia.Index)
					fr.set(x, Val{T: x.Type(), S: g.define("gc", g.S.sortOf(x.Type()), "(select "+ct+" "+g.toIdx(idx.S, ia.Index.Type())+")")})
					return
				}
			}
		}
		s := g.load(st, a, x.Type())
		s = g.define("ld", g.S.sortOf(x.Type()), s)
		if a.cell == nil {
			g.assumeUnder(st.path, g.typeRange(s, x.Type()))
			g.knownRef(st, s, x.Type())
		}
		if gl, ok := x.X.(*ssa.Global); ok && g.P.globalNonNil(gl) {
			if isIface(x.Type()) {
				g.assume("(not ((_ is iface_nil) " + s + "))")
			} else if isPtr(x.Type()) {
				g.assume("(not (= " + s + " 0))")
			}
			g.note("package variable " + gl.Pkg.Pkg.Name() + "." + gl.Name() + " is initialised once with a non-nil value (checked syntactically)")
		}
		fr.set(x, Val{T: x.Type(), S: s})
	case token.NOT:
		fr.set(x, Val{T: x.Type(), S: not(v.S)})
	case token.SUB:
		if bits, ok := isFloat(x.Type()); ok {
			_ = bits
			fr.set(x, Val{T: x.Type(), S: "(fp.neg " + v.S + ")"})
			return
		}
		bits, _, _ := intInfo(x.Type())
		if g.mode == ModeInt {
			r := g.define("neg", "Int", "(- "+v.S+")")
			fr.ovf(st, r, x.Type(), "neg")
			fr.set(x, Val{T: x.Type(), S: r})
			return
		}
		_ = bits
		fr.set(x, Val{T: x.Type(), S: "(bvneg " + v.S + ")"})
	case token.XOR:
		if g.mode == ModeInt {
			_, signed, _ := intInfo(x.Type())
			if signed {
				fr.set(x, Val{T: x.Type(), S: "(- (- " + v.S + ") 1)"})
			} else {
				fr.set(x, g.havocVal("xor", x.Type()))
				g.note("unsigned bitwise complement abstracted (mode int)")
			}
			return
		}
		fr.set(x, Val{T: x.Type(), S: "(bvnot " + v.S + ")"})
	case token.ARROW:
		fail("outside subset: channel receive in %s", fr.fn)
	default:
		fail("unsupported unop %s", x.Op)
	}
}

// ovf emits the no-overflow obligation for an Int-mode result.
func (fr *Frame) ovf(st *State, r string, t types.Type, what string) {
	g := fr.g
	if g.mode != ModeInt {
		return
	}
	rng := g.typeRange(r, t)
	if rng == "true" {
		return
	}
	g.oblige("ovf", what, st.path, rng, "no overflow in "+what+" ("+t.String()+")")
	g.assumeUnder(st.path, rng)
}

func (fr *Frame) execBinOp(st *State, x *ssa.BinOp) {
	g := fr.g
	a, b := fr.val(x.X), fr.val(x.Y)
	t := x.X.Type()
	switch x.Op {
	case token.EQL, token.NEQ:
		eq := fr.equal(st, a, b, t, x.Y.Type())
		if x.Op == token.NEQ {
			eq = not(eq)
		}
		fr.set(x, Val{T: x.Type(), S: g.define("eq", "Bool", eq)})
		return
	}
	if isString(t) {
		switch x.Op {
		case token.ADD:
			r := g.declare("cat", "Str")
			g.assume(and("(= (str_len "+r+") "+g.idxAdd("(str_len "+a.S+")", "(str_len "+b.S+")")+")", "(= (str_off "+r+") "+g.idxConst(0)+")"))
			fr.set(x, Val{T: x.Type(), S: r})
			return
		case token.LSS, token.LEQ, token.GTR, token.GEQ:
			c := g.strCompare(a.S, b.S)
			z := g.mathConst(bigZero)
			op := map[token.Token]string{token.LSS: "<", token.LEQ: "<=", token.GTR: ">", token.GEQ: ">="}[x.Op]
			fr.set(x, Val{T: x.Type(), S: g.mathBin(op, c, z)})
			return
		}
		fail("unsupported string binop %s", x.Op)
	}
	if bits, ok := isFloat(t); ok {
		_ = bits
		var s string
		switch x.Op {
		case token.ADD:
			s = "(fp.add RNE " + a.S + " " + b.S + ")"
		case token.SUB:
			s = "(fp.sub RNE " + a.S + " " + b.S + ")"
		case token.MUL:
			s = "(fp.mul RNE " + a.S + " " + b.S + ")"
		case token.QUO:
			s = "(fp.div RNE " + a.S + " " + b.S + ")"
		case token.LSS:
			s = "(fp.lt " + a.S + " " + b.S + ")"
		case token.LEQ:
			s = "(fp.leq " + a.S + " " + b.S + ")"
		case token.GTR:
			s = "(fp.gt " + a.S + " " + b.S + ")"
		case token.GEQ:
			s = "(fp.geq " + a.S + " " + b.S + ")"
		default:
			fail("unsupported float binop %s", x.Op)
		}
		fr.set(x, Val{T: x.Type(), S: g.define("f", g.S.sortOf(x.Type()), s)})
		return
	}
	if isBool(t) {
		switch x.Op {
		case token.AND, token.LAND:
			fr.set(x, Val{T: x.Type(), S: and(a.S, b.S)})
		case token.OR, token.LOR:
			fr.set(x, Val{T: x.Type(), S: or(a.S, b.S)})
		default:
			fail("unsupported bool binop %s", x.Op)
		}
		return
	}
	bits, signed, ok := intInfo(t)
	if !ok {
		fail("binop %s on unsupported type %s in %s", x.Op, t, fr.fn)
	}
	switch x.Op {
	case token.LSS, token.LEQ, token.GTR, token.GEQ:
		op := map[token.Token]string{token.LSS: "<", token.LEQ: "<=", token.GTR: ">", token.GEQ: ">="}[x.Op]
		fr.set(x, Val{T: x.Type(), S: g.define("cmp", "Bool", g.intCmp(op, a.S, b.S, t))})
		return
	}
	if g.mode == ModeBV {
		var s string
		switch x.Op {
		case token.ADD:
			s = "(bvadd " + a.S + " " + b.S + ")"
		case token.SUB:
			s = "(bvsub " + a.S + " " + b.S + ")"
		case token.MUL:
			s = "(bvmul " + a.S + " " + b.S + ")"
		case token.QUO:
			fr.safety(st, "div", "(not (= "+b.S+" "+bvConst(0, bits)+"))", "integer divide by zero")
			if signed {
				s = "(bvsdiv " + a.S + " " + b.S + ")"
			} else {
				s = "(bvudiv " + a.S + " " + b.S + ")"
			}
		case token.REM:
			fr.safety(st, "div", "(not (= "+b.S+" "+bvConst(0, bits)+"))", "integer divide by zero")
			if signed {
				s = "(bvsrem " + a.S + " " + b.S + ")"
			} else {
				s = "(bvurem " + a.S + " " + b.S + ")"
			}
		case token.AND:
			s = "(bvand " + a.S + " " + b.S + ")"
		case token.OR:
			s = "(bvor " + a.S + " " + b.S + ")"
		case token.XOR:
			s = "(bvxor " + a.S + " " + b.S + ")"
		case token.AND_NOT:
			s = "(bvand " + a.S + " (bvnot " + b.S + "))"
		case token.SHL, token.SHR:
			s = fr.bvShift(st, x, a, b, bits, signed)
		default:
			fail("unsupported int binop %s", x.Op)
		}
		fr.set(x, Val{T: x.Type(), S: g.define("i", g.S.sortOf(x.Type()), s)})
		return
	}
	// mode int
	var s string
	what := ""
	switch x.Op {
	case token.ADD:
		s, what = "(+ "+a.S+" "+b.S+")", "add"
	case token.SUB:
		s, what = "(- "+a.S+" "+b.S+")", "sub"
	case token.MUL:
		s, what = "(* "+a.S+" "+b.S+")", "mul"
	case token.QUO:
		fr.safety(st, "div", "(not (= "+b.S+" 0))", "integer divide by zero")
		g.needDivFns = true
		s, what = "(go_div "+a.S+" "+b.S+")", "div"
	case token.REM:
		fr.safety(st, "div", "(not (= "+b.S+" 0))", "integer divide by zero")
		g.needDivFns = true
		s = "(go_rem " + a.S + " " + b.S + ")"
	case token.SHL, token.SHR:
		k, isC := isConstTerm(b.S)
		if !isC || k.Sign() < 0 || k.Int64() > 62 {
			if _, bsigned, _ := intInfo(x.Y.Type()); bsigned {
				fr.safety(st, "shift", "(>= "+b.S+" 0)", "negative shift amount")
			}
			fr.set(x, g.havocVal("shift", x.Type()))
			g.note("non-constant shift abstracted (mode int) in " + fr.fn.String())
			return
		}
		p := pow2(int(k.Int64())).String()
		if x.Op == token.SHL {
			s, what = "(* "+a.S+" "+p+")", "shl"
		} else {
			s = "(div " + a.S + " " + p + ")"
		}
	case token.AND:
		// x & (2^k-1) on non-negative x
		// x & (2^k-1) is x mod 2^k (Euclidean, also for negative two's complement x)
		if k, isC := isConstTerm(b.S); isC && k.Sign() >= 0 && isPow2Minus1(k) {
			s = "(mod " + a.S + " " + new(bigInt).Add(k, bigOne).String() + ")"
		} else {
			fr.set(x, g.havocVal("and", x.Type()))
			g.note("bitwise and abstracted (mode int) in " + fr.fn.String())
			return
		}
	default:
		fr.set(x, g.havocVal("bit", x.Type()))
		g.note("bitwise op " + x.Op.String() + " abstracted (mode int) in " + fr.fn.String())
		return
	}
	r := g.define("i", "Int", s)
	if what != "" {
		fr.ovf(st, r, x.Type(), what)
	}
	fr.set(x, Val{T: x.Type(), S: r})
}

func (fr *Frame) bvShift(st *State, x *ssa.BinOp, a, b Val, bits int, signed bool) string {
	cb, csigned, _ := intInfo(x.Y.Type())
	cnt := b.S
	if csigned {
		fr.safety(st, "shift", "(bvsge "+cnt+" "+bvConst(0, cb)+")", "negative shift amount")
	}
	var big string
	// normalise count to width of a
	switch {
	case cb < bits:
		cnt = fmt.Sprintf("((_ zero_extend %d) %s)", bits-cb, cnt)
		big = "false"
	case cb > bits:
		big = "(bvuge " + cnt + " " + bvConst(uint64(bits), cb) + ")"
		cnt = fmt.Sprintf("((_ extract %d 0) %s)", bits-1, cnt)
	default:
		big = "false"
	}
	var s, over string
	if x.Op == token.SHL {
		s = "(bvshl " + a.S + " " + cnt + ")"
		over = bvConst(0, bits)
	} else if signed {
		s = "(bvashr " + a.S + " " + cnt + ")"
		over = "(bvashr " + a.S + " " + bvConst(uint64(bits-1), bits) + ")"
	} else {
		s = "(bvlshr " + a.S + " " + cnt + ")"
		over = bvConst(0, bits)
	}
	return ite(big, over, s)
}

// equal builds Go == for two values of static types ta, tb.
func (fr *Frame) equal(st *State, a, b Val, ta, tb types.Type) string {
	g := fr.g
	if isString(ta) {
		return g.strEq(a.S, b.S)
	}
	if _, ok := isFloat(ta); ok {
		return "(fp.eq " + a.S + " " + b.S + ")"
	}
	if isIface(ta) != isIface(tb) {
		// comparison interface vs concrete: box the concrete side
		if isIface(ta) {
			return "(= " + a.S + " " + g.boxVal(st, b) + ")"
		}
		return "(= " + g.boxVal(st, a) + " " + b.S + ")"
	}
	if _, ok := ta.Underlying().(*types.Slice); ok {
		// only comparison with nil is legal
		if strings.HasPrefix(b.S, "slice_nil") {
			return "(= (sl_ref " + a.S + ") 0)"
		}
		return "(= (sl_ref " + b.S + ") 0)"
	}
	as, bs := a.S, b.S
	if as == "" && a.A != nil {
		as = g.escapeAddr(st, a)
	}
	if bs == "" && b.A != nil {
		bs = g.escapeAddr(st, b)
	}
	if a.Fn != nil || b.Fn != nil {
		// func compared with nil
		if a.Fn != nil && b.Fn == nil {
			return "false"
		}
		if b.Fn != nil && a.Fn == nil {
			return "false"
		}
	}
	return "(= " + as + " " + bs + ")"
}

// boxVal boxes a concrete value into an interface value term.
func (g *Gen) boxVal(st *State, v Val) string {
	if isIface(v.T) {
		return v.S
	}
	s := v.S
	if s == "" && v.A != nil {
		s = g.escapeAddr(st, v)
	}
	if s == "" {
		s = "0"
	}
	return g.S.box(v.T, s)
}

func (fr *Frame) execConvert(st *State, x *ssa.Convert) {
	g := fr.g
	v := fr.val(x.X)
	from, to := x.X.Type(), x.Type()
	fb, fsigned, fint := intInfo(from)
	tb, tsigned, tint := intInfo(to)
	ffb, ffloat := isFloat(from)
	tfb, tfloat := isFloat(to)
	switch {
	case fint && tint:
		if g.mode == ModeInt {
			lo1, hi1 := intBounds(fb, fsigned)
			lo2, hi2 := intBounds(tb, tsigned)
			if lo1.Cmp(lo2) < 0 || hi1.Cmp(hi2) > 0 {
				fr.ovf(st, v.S, to, "conv")
			}
			fr.set(x, Val{T: to, S: v.S})
			return
		}
		var s string
		switch {
		case tb == fb:
			s = v.S
		case tb < fb:
			s = fmt.Sprintf("((_ extract %d 0) %s)", tb-1, v.S)
		case fsigned:
			s = fmt.Sprintf("((_ sign_extend %d) %s)", tb-fb, v.S)
		default:
			s = fmt.Sprintf("((_ zero_extend %d) %s)", tb-fb, v.S)
		}
		fr.set(x, Val{T: to, S: g.define("cv", g.S.sortOf(to), s)})
	case fint && tfloat:
		var s string
		es, sb := 11, 53
		if tfb == 32 {
			es, sb = 8, 24
		}
		if g.mode == ModeInt {
			// abstraction: an uninterpreted (but functional) conversion; exact semantics only in mode bv
			g.needI2F = true
			s = fmt.Sprintf("(i2f%d %s)", tfb, v.S)
		} else if fsigned {
			s = fmt.Sprintf("((_ to_fp %d %d) RNE %s)", es, sb, v.S)
		} else {
			s = fmt.Sprintf("((_ to_fp_unsigned %d %d) RNE %s)", es, sb, v.S)
		}
		fr.set(x, Val{T: to, S: g.define("cv", g.S.sortOf(to), s)})
	case ffloat && tint:
		if g.mode == ModeInt {
			fr.set(x, g.havocVal("f2i", to))
			g.note("float->int conversion abstracted (mode int)")
			return
		}
		var s string
		if tsigned {
			s = fmt.Sprintf("((_ fp.to_sbv %d) RTZ %s)", tb, v.S)
		} else {
			s = fmt.Sprintf("((_ fp.to_ubv %d) RTZ %s)", tb, v.S)
		}
		fr.set(x, Val{T: to, S: g.define("cv", g.S.sortOf(to), s)})
	case ffloat && tfloat:
		if ffb == tfb {
			fr.set(x, Val{T: to, S: v.S})
			return
		}
		es, sb := 11, 53
		if tfb == 32 {
			es, sb = 8, 24
		}
		fr.set(x, Val{T: to, S: g.define("cv", g.S.sortOf(to), fmt.Sprintf("((_ to_fp %d %d) RNE %s)", es, sb, v.S))})
	case isString(to) && fint:
		// string(rune): opaque short string
		r := g.declare("runestr", "Str")
		g.assume(and(g.idxLe(g.idxConst(1), "(str_len "+r+")"), g.idxLe("(str_len "+r+")", g.idxConst(4)), "(= (str_off "+r+") "+g.idxConst(0)+")"))
		fr.set(x, Val{T: to, S: r})
	case isString(to):
		// string([]byte) / string([]rune)
		r := g.declare("bstr", "Str")
		if sl, ok := from.Underlying().(*types.Slice); ok {
			if b, _, isI := intInfo(sl.Elem()); isI && b == 8 {
				g.assume("(= (str_len " + r + ") (sl_len " + v.S + "))")
				// contents: bytes of the slice at conversion time
				key, _ := g.elemKey(sl.Elem())
				arr := "(select " + st.heap.get(g, key) + " (sl_ref " + v.S + "))"
				g.assume("(= (str_off " + r + ") (sl_off " + v.S + "))")
				g.assume("(= (str_arr " + r + ") " + arr + ")")
			}
		}
		g.assume(g.typeRange(r, to))
		fr.set(x, Val{T: to, S: r})
	case isString(from):
		// []byte(s) / []rune(s): fresh backing array
		sl := to.Underlying().(*types.Slice)
		ref := g.allocRef(st)
		r := g.declare("sbytes", "Slice")
		g.assume(and("(= (sl_ref "+r+") "+ref+")", "(= (sl_off "+r+") "+g.idxConst(0)+")", g.typeRange(r, to)))
		if b, _, isI := intInfo(sl.Elem()); isI && b == 8 {
			g.assume("(= (sl_len " + r + ") (str_len " + v.S + "))")
		}
		fr.set(x, Val{T: to, S: r})
	default:
		// pointer/unsafe conversions etc.
		if v.S != "" && g.S.sortOf(from) == g.S.sortOf(to) {
			fr.set(x, Val{T: to, S: v.S, A: v.A})
			return
		}
		fr.set(x, g.havocVal("conv", to))
		g.note("conversion " + from.String() + " -> " + to.String() + " abstracted")
	}
}

func (fr *Frame) execTypeAssert(st *State, x *ssa.TypeAssert) {
	g := fr.g
	v := fr.val(x.X)
	var ok, res string
	if isIface(x.AssertedType) {
		ok = g.S.implements(x.AssertedType, v.S)
		res = v.S
	} else {
		ok = g.S.isDyn(x.AssertedType, v.S)
		res = g.S.unbox(x.AssertedType, v.S)
	}
	ok = g.define("ta", "Bool", ok)
	if x.CommaOk {
		var rv string
		if isIface(x.AssertedType) {
			rv = ite(ok, res, "iface_nil")
		} else {
			rv = ite(ok, res, g.S.zero(x.AssertedType))
		}
		rv = g.define("tav", g.S.sortOf(x.AssertedType), rv)
		if !isIface(x.AssertedType) {
			g.assumeUnder(and(st.path, ok), g.typeRange(rv, x.AssertedType))
		}
		fr.set(x, Val{T: x.Type(), Tup: []Val{{T: x.AssertedType, S: rv}, {T: types.Typ[types.Bool], S: ok}}})
		return
	}
	fr.safety(st, "typeassert", ok, "interface conversion: "+x.X.Type().String()+" is not "+x.AssertedType.String())
	rv := g.define("tav", g.S.sortOf(x.AssertedType), res)
	if !isIface(x.AssertedType) {
		g.assumeUnder(st.path, g.typeRange(rv, x.AssertedType))
	}
	fr.set(x, Val{T: x.AssertedType, S: rv})
}

func (fr *Frame) execIndexAddr(st *State, x *ssa.IndexAddr) {
	g := fr.g
	base := fr.val(x.X)
	idx := fr.val(x.Index)
	i := g.toIdx(idx.S, x.Index.Type())
	switch xt := x.X.Type().Underlying().(type) {
	case *types.Slice:
		ln := "(sl_len " + base.S + ")"
		fr.safety(st, "index", and(g.idxLe(g.idxConst(0), i), g.idxLt(i, ln)), "index out of range (slice)")
		a := &Addr{ref: "(sl_ref " + base.S + ")", root: xt.Elem(), elems: true,
			path: []pathElem{{isIndex: true, index: g.define("ix", g.idxSort(), g.idxAdd("(sl_off "+base.S+")", i)),
				efn: g.elemFn(g.S.sortOf(xt.Elem())), off: "(sl_off " + base.S + ")", rel: i}}}
		fr.set(x, Val{T: x.Type(), A: a})
	case *types.Pointer:
		at := xt.Elem().Underlying().(*types.Array)
		fr.nilCheck(st, base, "index")
		fr.safety(st, "index", and(g.idxLe(g.idxConst(0), i), g.idxLt(i, g.idxConst(at.Len()))), "index out of range (array)")
		a := g.addrOfPtr(base)
		if a.elems && len(a.path) == 0 {
			fr.set(x, Val{T: x.Type(), A: &Addr{ref: a.ref, root: a.root, elems: true, path: []pathElem{{isIndex: true, index: i}}}})
			return
		}
		fr.set(x, Val{T: x.Type(), A: a.extend(pathElem{isIndex: true, index: i, cont: xt.Elem()})})
	default:
		fail("indexaddr on %s", x.X.Type())
	}
}

func (fr *Frame) execIndex(st *State, x *ssa.Index) {
	g := fr.g
	base := fr.val(x.X)
	idx := fr.val(x.Index)
	i := g.toIdx(idx.S, x.Index.Type())
	switch xt := x.X.Type().Underlying().(type) {
	case *types.Array:
		fr.safety(st, "index", and(g.idxLe(g.idxConst(0), i), g.idxLt(i, g.idxConst(xt.Len()))), "index out of range (array)")
		fr.set(x, Val{T: x.Type(), S: "(select " + base.S + " " + i + ")"})
	default:
		if isString(x.X.Type()) {
			fr.safety(st, "index", and(g.idxLe(g.idxConst(0), i), g.idxLt(i, "(str_len "+base.S+")")), "index out of range (string)")
			s := g.define("sb", g.S.sortOf(x.Type()), g.strAt(base.S, i))
			g.assumeUnder(st.path, g.typeRange(s, x.Type()))
			fr.set(x, Val{T: x.Type(), S: s})
			return
		}
		fail("index on %s", x.X.Type())
	}
}

func (fr *Frame) execSlice(st *State, x *ssa.Slice) {
	g := fr.g
	base := fr.val(x.X)
	z := g.idxConst(0)
	get := func(v ssa.Value, def string) string {
		if v == nil {
			return def
		}
		return g.toIdx(fr.val(v).S, v.Type())
	}
	switch xt := x.X.Type().Underlying().(type) {
	case *types.Basic: // string
		ln := "(str_len " + base.S + ")"
		lo, hi := get(x.Low, z), get(x.High, ln)
		fr.safety(st, "slice", and(g.idxLe(z, lo), g.idxLe(lo, hi), g.idxLe(hi, ln)), "slice bounds out of range (string)")
		s := "(mk_str (str_arr " + base.S + ") " + g.idxAdd("(str_off "+base.S+")", lo) + " " + g.idxSub(hi, lo) + ")"
		fr.set(x, Val{T: x.Type(), S: g.define("ss", "Str", s)})
	case *types.Slice:
		ln, cp := "(sl_len "+base.S+")", "(sl_cap "+base.S+")"
		lo, hi := get(x.Low, z), get(x.High, ln)
		mx := get(x.Max, cp)
		fr.safety(st, "slice", and(g.idxLe(z, lo), g.idxLe(lo, hi), g.idxLe(hi, mx), g.idxLe(mx, cp)), "slice bounds out of range")
		s := "(mk_slice (sl_ref " + base.S + ") " + g.idxAdd("(sl_off "+base.S+")", lo) + " " + g.idxSub(hi, lo) + " " + g.idxSub(mx, lo) + ")"
		fr.set(x, Val{T: x.Type(), S: g.define("sl", "Slice", s)})
	case *types.Pointer: // pointer to array
		at := xt.Elem().Underlying().(*types.Array)
		n := g.idxConst(at.Len())
		lo, hi := get(x.Low, z), get(x.High, n)
		fr.safety(st, "slice", and(g.idxLe(z, lo), g.idxLe(lo, hi), g.idxLe(hi, n)), "slice bounds out of range (array)")
		a := g.addrOfPtr(base)
		if a.cell == nil && a.elems && len(a.path) == 0 {
			s := "(mk_slice " + a.ref + " " + lo + " " + g.idxSub(hi, lo) + " " + g.idxSub(n, lo) + ")"
			fr.set(x, Val{T: x.Type(), S: g.define("sl", "Slice", s)})
			return
		}
		// array lives in a local cell or inside a struct: copy semantics lost; give an opaque slice of right length
		r := g.declare("asl", "Slice")
		if a.cell != nil && fr.arrElems[a.cell] != nil {
			var vs []Val
			for i := int64(0); i < at.Len(); i++ {
				vs = append(vs, fr.arrElems[a.cell][i])
			}
			if fr.varargs == nil {
				fr.varargs = map[string][]Val{}
			}
			fr.varargs[r] = vs
		}
		g.assume(and("(= (sl_len "+r+") "+g.idxSub(hi, lo)+")", "(> (sl_ref "+r+") 0)", g.typeRange(r, x.Type())))
		// contents: if cell-rooted, copy current contents into the fresh backing array
		if a.cell != nil {
			cur := g.load(st, a, xt.Elem())
			key, srt := g.elemKey(at.Elem())
			ref := g.allocRef(st)
			g.assume("(= (sl_ref " + r + ") " + ref + ")")
			g.assume("(= (sl_off " + r + ") " + lo + ")")
			h := st.heap.get(g, key)
			st.heap.setFresh(key, g.define("he", srt, "(store "+h+" "+ref+" "+cur+")"))
		}
		fr.set(x, Val{T: x.Type(), S: r})
	default:
		fail("slice on %s", x.X.Type())
	}
}

func (fr *Frame) execMakeSlice(st *State, x *ssa.MakeSlice) {
	g := fr.g
	ln := g.toIdx(fr.val(x.Len).S, x.Len.Type())
	cp := g.toIdx(fr.val(x.Cap).S, x.Cap.Type())
	z := g.idxConst(0)
	fr.safety(st, "makeslice", and(g.idxLe(z, ln), g.idxLe(ln, cp)), "makeslice: len out of range")
	ref := g.allocRef(st)
	el := x.Type().Underlying().(*types.Slice).Elem()
	key, srt := g.elemKey(el)
	h := st.heap.get(g, key)
	zeroArr := "((as const (Array " + g.idxSort() + " " + g.S.sortOf(el) + ")) " + g.S.zero(el) + ")"
	st.heap.setFresh(key, g.define("he", srt, "(store "+h+" "+ref+" "+zeroArr+")"))
	fr.set(x, Val{T: x.Type(), S: g.define("mk", "Slice", "(mk_slice "+ref+" "+z+" "+ln+" "+cp+")")})
}

func (fr *Frame) execLookup(st *State, x *ssa.Lookup) {
	g := fr.g
	base := fr.val(x.X)
	if isString(x.X.Type()) {
		idx := fr.val(x.Index)
		i := g.toIdx(idx.S, x.Index.Type())
		fr.safety(st, "index", and(g.idxLe(g.idxConst(0), i), g.idxLt(i, "(str_len "+base.S+")")), "index out of range (string)")
		s := g.define("sb", g.S.sortOf(types.Typ[types.Uint8]), g.strAt(base.S, i))
		g.assumeUnder(st.path, g.typeRange(s, types.Typ[types.Uint8]))
		fr.set(x, Val{T: x.Type(), S: s})
		return
	}
	v, ok := g.mapLookup(st, base, fr.val(x.Index))
	if x.CommaOk {
		fr.set(x, Val{T: x.Type(), Tup: []Val{v, {T: types.Typ[types.Bool], S: ok}}})
		return
	}
	fr.set(x, v)
}

func (fr *Frame) execNext(st *State, x *ssa.Next) {
	g := fr.g
	tup := x.Type().(*types.Tuple)
	ok := g.declare("nxt", "Bool")
	var vs []Val
	vs = append(vs, Val{T: types.Typ[types.Bool], S: ok})
	for i := 1; i < tup.Len(); i++ {
		vs = append(vs, g.havocVal("it", tup.At(i).Type()))
	}
	if x.IsString {
		// key is an index into the string, value a rune
		it := fr.val(x.Iter)
		if len(it.Tup) == 1 {
			s := it.Tup[0].S
			k := vs[1].S
			g.assume(implies(ok, and(g.intCmp("<=", g.S.intConst(0, 64), k, types.Typ[types.Int]), g.intCmp("<", k, g.strLenAs(s, types.Typ[types.Int]), types.Typ[types.Int]))))
		}
	}
	fr.set(x, Val{T: x.Type(), Tup: vs})
}

func (g *Gen) strLenAs(s string, t types.Type) string {
	return "(str_len " + s + ")"
}
