package main

// Parser for the contract expression language (Gobra-flavoured Go expressions).

import (
	"fmt"
	"strings"
	"unicode"
)

type SExpr interface{}

type (
	SIdent struct{ Name string }
	SInt   struct{ Val string } // decimal text, may be big
	SStr   struct{ Val string }
	SBool  struct{ Val bool }
	SNil   struct{}
	SUnary struct {
		Op string
		X  SExpr
	}
	SBinary struct {
		Op   string
		X, Y SExpr
	}
	SCall struct {
		Fun  string
		Recv SExpr // non-nil for method-style calls x.f(args)
		Args []SExpr
	}
	SIndex struct{ X, I SExpr }
	SSlice struct{ X, Lo, Hi SExpr }
	SSel   struct {
		X    SExpr
		Name string
	}
	SAssert struct {
		X SExpr
		T *SType
	}
	SQuant struct {
		Forall bool
		Vars   []SVar
		Body   SExpr
	}
	SCond  struct{ C, A, B SExpr }
	SDynEq struct {
		X   SExpr
		T   *SType
		Neg bool
	}
	SOld struct{ X SExpr }
)

type SVar struct {
	Name string
	T    *SType
}

// SType is a syntactic type expression: *T, []T, pkg.T, T, interface{}
type SType struct {
	Kind string // "name", "ptr", "slice", "iface", "array"
	Pkg  string
	Name string
	Elem *SType
	Len  string
}

func (t *SType) String() string {
	switch t.Kind {
	case "ptr":
		return "*" + t.Elem.String()
	case "slice":
		return "[]" + t.Elem.String()
	case "array":
		return "[" + t.Len + "]" + t.Elem.String()
	case "iface":
		return "interface{}"
	}
	if t.Pkg != "" {
		return t.Pkg + "." + t.Name
	}
	return t.Name
}

type tok struct {
	kind string // id, int, str, chr, op, eof
	s    string
	pos  int
}

type sparser struct {
	src  string
	toks []tok
	p    int
}

var ops3 = []string{"<==>", "===", "==>", "&&", "||", "==", "!=", "<=", ">=", "<<", ">>", "&^", "::"}

func tokenize(src string) ([]tok, error) {
	var out []tok
	i := 0
	for i < len(src) {
		c := src[i]
		if c == ' ' || c == '\t' {
			i++
			continue
		}
		if unicode.IsLetter(rune(c)) || c == '_' {
			j := i
			for j < len(src) && (unicode.IsLetter(rune(src[j])) || unicode.IsDigit(rune(src[j])) || src[j] == '_' || src[j] == '$') {
				j++
			}
			out = append(out, tok{"id", src[i:j], i})
			i = j
			continue
		}
		if c >= '0' && c <= '9' {
			j := i
			for j < len(src) && (unicode.IsLetter(rune(src[j])) || unicode.IsDigit(rune(src[j])) || src[j] == '_') {
				j++
			}
			out = append(out, tok{"int", strings.ReplaceAll(src[i:j], "_", ""), i})
			i = j
			continue
		}
		if c == '"' {
			j := i + 1
			var b strings.Builder
			for j < len(src) && src[j] != '"' {
				if src[j] == '\\' && j+1 < len(src) {
					j++
					switch src[j] {
					case 'n':
						b.WriteByte('\n')
					case 't':
						b.WriteByte('\t')
					case 'r':
						b.WriteByte('\r')
					default:
						b.WriteByte(src[j])
					}
				} else {
					b.WriteByte(src[j])
				}
				j++
			}
			if j >= len(src) {
				return nil, fmt.Errorf("unterminated string at %d", i)
			}
			out = append(out, tok{"str", b.String(), i})
			i = j + 1
			continue
		}
		if c == '\'' {
			j := i + 1
			var v byte
			if j < len(src) && src[j] == '\\' {
				j++
				switch src[j] {
				case 'n':
					v = '\n'
				case 't':
					v = '\t'
				case 'r':
					v = '\r'
				default:
					v = src[j]
				}
			} else if j < len(src) {
				v = src[j]
			}
			j++
			if j >= len(src) || src[j] != '\'' {
				return nil, fmt.Errorf("bad char literal at %d", i)
			}
			out = append(out, tok{"int", fmt.Sprintf("%d", v), i})
			i = j + 1
			continue
		}
		matched := false
		for _, op := range ops3 {
			if strings.HasPrefix(src[i:], op) {
				out = append(out, tok{"op", op, i})
				i += len(op)
				matched = true
				break
			}
		}
		if matched {
			continue
		}
		out = append(out, tok{"op", string(c), i})
		i++
	}
	out = append(out, tok{"eof", "", len(src)})
	return out, nil
}

func parseSpec(src string) (e SExpr, err error) {
	toks, err := tokenize(src)
	if err != nil {
		return nil, err
	}
	p := &sparser{src: src, toks: toks}
	defer func() {
		if r := recover(); r != nil {
			if pe, ok := r.(parseErr); ok {
				err = fmt.Errorf("%s (in %q)", string(pe), src)
				return
			}
			panic(r)
		}
	}()
	e = p.expr()
	if p.cur().kind != "eof" {
		p.fail("unexpected %q", p.cur().s)
	}
	return e, nil
}

type parseErr string

func (p *sparser) fail(f string, a ...interface{}) {
	panic(parseErr(fmt.Sprintf("spec parse error at %d: ", p.cur().pos) + fmt.Sprintf(f, a...)))
}
func (p *sparser) cur() tok { return p.toks[p.p] }
func (p *sparser) peekOp(s string) bool {
	t := p.cur()
	return t.kind == "op" && t.s == s
}
func (p *sparser) accept(s string) bool {
	if p.peekOp(s) {
		p.p++
		return true
	}
	return false
}
func (p *sparser) expect(s string) {
	if !p.accept(s) {
		p.fail("expected %q, got %q", s, p.cur().s)
	}
}
func (p *sparser) ident() string {
	t := p.cur()
	if t.kind != "id" {
		p.fail("expected identifier, got %q", t.s)
	}
	p.p++
	return t.s
}

func (p *sparser) expr() SExpr {
	t := p.cur()
	if t.kind == "id" && (t.s == "forall" || t.s == "exists") {
		p.p++
		q := &SQuant{Forall: t.s == "forall"}
		for {
			name := p.ident()
			var ty *SType
			if !p.peekOp(",") && !p.peekOp("::") {
				ty = p.typ()
			}
			q.Vars = append(q.Vars, SVar{name, ty})
			if !p.accept(",") {
				break
			}
		}
		// propagate types right-to-left: "i, j int"
		for i := len(q.Vars) - 2; i >= 0; i-- {
			if q.Vars[i].T == nil {
				q.Vars[i].T = q.Vars[i+1].T
			}
		}
		p.expect("::")
		q.Body = p.expr()
		return q
	}
	return p.cond()
}

func (p *sparser) cond() SExpr {
	c := p.iff()
	if p.accept("?") {
		a := p.expr()
		p.expect(":")
		b := p.expr()
		return &SCond{c, a, b}
	}
	return c
}

func (p *sparser) iff() SExpr {
	x := p.implies()
	for p.accept("<==>") {
		y := p.implies()
		x = &SBinary{"<==>", x, y}
	}
	return x
}

func (p *sparser) implies() SExpr {
	x := p.or()
	if p.accept("==>") {
		// right assoc; rhs may be a quantifier
		var y SExpr
		if t := p.cur(); t.kind == "id" && (t.s == "forall" || t.s == "exists") {
			y = p.expr()
		} else {
			y = p.implies()
		}
		return &SBinary{"==>", x, y}
	}
	return x
}

func (p *sparser) or() SExpr {
	x := p.and()
	for p.accept("||") {
		y := p.and()
		x = &SBinary{"||", x, y}
	}
	return x
}

func (p *sparser) and() SExpr {
	x := p.cmp()
	for p.accept("&&") {
		y := p.cmp()
		x = &SBinary{"&&", x, y}
	}
	return x
}

func (p *sparser) cmp() SExpr {
	x := p.add()
	for {
		t := p.cur()
		if t.kind != "op" {
			return x
		}
		switch t.s {
		case "===":
			p.p++
			y := p.add()
			x = &SBinary{"===", x, y}
		case "==", "!=":
			p.p++
			if c, ok := x.(*SCall); ok && c.Fun == "dyn" && c.Recv == nil {
				ty := p.typ()
				x = &SDynEq{X: c.Args[0], T: ty, Neg: t.s == "!="}
				continue
			}
			y := p.add()
			x = &SBinary{t.s, x, y}
		case "<", "<=", ">", ">=":
			p.p++
			y := p.add()
			// chained comparison a <= b < c
			if b, ok := x.(*SBinary); ok && isRel(b.Op) && !b.paren() {
				x = &SBinary{"&&", x, &SBinary{t.s, b.Y, y}}
			} else {
				x = &SBinary{t.s, x, y}
			}
		default:
			return x
		}
	}
}

func (b *SBinary) paren() bool { return false }

func isRel(op string) bool {
	switch op {
	case "<", "<=", ">", ">=":
		return true
	}
	return false
}

func (p *sparser) add() SExpr {
	x := p.mul()
	for {
		t := p.cur()
		if t.kind == "op" && (t.s == "+" || t.s == "-" || t.s == "|" || t.s == "^") {
			p.p++
			y := p.mul()
			x = &SBinary{t.s, x, y}
			continue
		}
		return x
	}
}

func (p *sparser) mul() SExpr {
	x := p.unary()
	for {
		t := p.cur()
		if t.kind == "op" && (t.s == "*" || t.s == "/" || t.s == "%" || t.s == "<<" || t.s == ">>" || t.s == "&" || t.s == "&^") {
			p.p++
			y := p.unary()
			x = &SBinary{t.s, x, y}
			continue
		}
		return x
	}
}

func (p *sparser) unary() SExpr {
	t := p.cur()
	if t.kind == "op" && (t.s == "!" || t.s == "-" || t.s == "^" || t.s == "*") {
		p.p++
		x := p.unary()
		return &SUnary{t.s, x}
	}
	return p.postfix()
}

func (p *sparser) postfix() SExpr {
	x := p.primary()
	for {
		switch {
		case p.accept("."):
			if p.accept("(") {
				ty := p.typ()
				p.expect(")")
				x = &SAssert{x, ty}
				continue
			}
			name := p.ident()
			if p.peekOp("(") {
				p.p++
				args := p.args()
				x = &SCall{Fun: name, Recv: x, Args: args}
				continue
			}
			x = &SSel{x, name}
		case p.accept("["):
			var lo, hi SExpr
			if !p.peekOp(":") {
				lo = p.expr()
			}
			if p.accept(":") {
				if !p.peekOp("]") {
					hi = p.expr()
				}
				p.expect("]")
				x = &SSlice{x, lo, hi}
				continue
			}
			p.expect("]")
			x = &SIndex{x, lo}
		default:
			return x
		}
	}
}

func (p *sparser) args() []SExpr {
	var args []SExpr
	if p.accept(")") {
		return args
	}
	for {
		args = append(args, p.expr())
		if p.accept(")") {
			return args
		}
		p.expect(",")
	}
}

func (p *sparser) primary() SExpr {
	t := p.cur()
	switch t.kind {
	case "int":
		p.p++
		return &SInt{t.s}
	case "str":
		p.p++
		return &SStr{t.s}
	case "id":
		p.p++
		switch t.s {
		case "true":
			return &SBool{true}
		case "false":
			return &SBool{false}
		case "nil":
			return &SNil{}
		}
		if p.peekOp("(") {
			p.p++
			args := p.args()
			if t.s == "old" {
				if len(args) != 1 {
					p.fail("old takes one argument")
				}
				return &SOld{args[0]}
			}
			return &SCall{Fun: t.s, Args: args}
		}
		return &SIdent{t.s}
	case "op":
		if t.s == "(" {
			p.p++
			x := p.expr()
			p.expect(")")
			// mark parenthesised relational so chains don't merge
			if b, ok := x.(*SBinary); ok && isRel(b.Op) {
				return &SUnary{"()", b}
			}
			return x
		}
	}
	p.fail("unexpected %q", t.s)
	return nil
}

func (p *sparser) typ() *SType {
	if p.accept("*") {
		return &SType{Kind: "ptr", Elem: p.typ()}
	}
	if p.accept("[") {
		if p.accept("]") {
			return &SType{Kind: "slice", Elem: p.typ()}
		}
		t := p.cur()
		if t.kind != "int" {
			p.fail("expected array length")
		}
		p.p++
		p.expect("]")
		return &SType{Kind: "array", Len: t.s, Elem: p.typ()}
	}
	name := p.ident()
	if name == "interface" {
		p.expect("{")
		p.expect("}")
		return &SType{Kind: "iface"}
	}
	if p.peekOp(".") && p.toks[p.p+1].kind == "id" {
		p.p++
		n2 := p.ident()
		return &SType{Kind: "name", Pkg: name, Name: n2}
	}
	return &SType{Kind: "name", Name: name}
}

// parseTypeStr parses a standalone type expression.
func parseTypeStr(src string) (t *SType, err error) {
	toks, err := tokenize(src)
	if err != nil {
		return nil, err
	}
	p := &sparser{src: src, toks: toks}
	defer func() {
		if r := recover(); r != nil {
			if pe, ok := r.(parseErr); ok {
				err = fmt.Errorf("%s (in %q)", string(pe), src)
				return
			}
			panic(r)
		}
	}()
	t = p.typ()
	return t, nil
}
