package main

// VC generator core: script assembly, heap model, obligations.

import (
	"regexp"
	"os"
	"fmt"
	"go/types"
	"sort"
	"strings"

	"golang.org/x/tools/go/ssa"
)

type Obligation struct {
	Name      string   `json:"name"`
	Kind      string   `json:"kind"`
	Fn        string   `json:"function"`
	Props     []string `json:"properties"`
	Clause    string   `json:"clause"`
	Mode      string   `json:"integer_mode"`
	ExpectSat bool     `json:"expect_sat,omitempty"`
	Bounded   string   `json:"bounded,omitempty"`

	script       string // full SMT-LIB script
	model        []modelVar
	regionScript string // script re-verifying the obligation outside a known-finding region
	replayed     bool
	noRetry      bool
	prefix       string // declarations and assumptions (the script without its final goal assertion)
	goal, path   string
	regionTerm   string
	nlines       int
	group        *oblGroup
	sorts        *Sorts
	oracle       string     // script evaluating the clause on concrete inputs/results (replay oracle)
	oracleRes    []modelVar // result variables of the oracle script
	// results
	Status   string  `json:"status"` // discharged | failed | undecided
	Solver   string  `json:"solver"`
	Secs     float64 `json:"secs"`
	Answer   string  `json:"answer"`
	SmtBytes int     `json:"smt_bytes"`
	Model    string  `json:"model,omitempty"`
	KnownHit string  `json:"known_finding,omitempty"`
}

// oblGroup: several obligations at the same program point checked by one query first.
type oblGroup struct {
	name    string
	members []*Obligation
	script  string
	nlines  int
}

type modelVar struct {
	Name string // Go-level name (param)
	Term string // SMT term to evaluate
	T    types.Type
	Kind string
}

type KnownRegion struct {
	Obligation string
	Region     string // spec-language expression over the function's parameters
	Witness    string
}

type Gen struct {
	P     *Program
	fn    *ssa.Function
	con   *Contract
	mode  IntMode
	S     *Sorts
	lines []string
	nf    int
	obls  []*Obligation

	strConsts   map[string]string
	heapSorts   map[string]string
	heapOrder   []string
	notes       map[string]bool // assumption notes (trusted calls, havocs)
	pureDone    map[string]bool
	pureDecls   []string // declare-fun / define-fun lines for spec functions (go after datatypes)
	axiomsDone  bool
	globals     map[string]string
	counters    map[string]int
	entry       *State
	stack       []*ssa.Function
	needDivFns  bool
	globConst   map[*ssa.Global]string
	needWraps   bool
	heapConsts  []string
	constKey    map[string]string
	pureKeys    map[string][]string
	keyType     map[string]types.Type
	topFrame    *Frame
	noHoist     int
	pureHeap    map[string]bool
	axiomDone   map[string]bool
	needReMatch bool
	freshRefs   map[string]bool
	defs        map[string]string
	paramEnd    int
	late        []string
	needI2F     bool
	groups      []*oblGroup
	useElemFn   bool
	elemFns     map[string]string
	needStrEq   bool
	needStrCmp  bool
	needStrNum  bool
	needUni     map[string]bool
	params      []modelVar
	knownDyn    map[string]types.Type // param name -> dynamic type from "requires dyn(p) == T"
	fnKey       string
}

func newGen(P *Program, fn *ssa.Function, con *Contract, mode IntMode) *Gen {
	g := &Gen{P: P, fn: fn, con: con, mode: mode, S: newSorts(mode, P),
		strConsts: map[string]string{}, heapSorts: map[string]string{}, notes: map[string]bool{},
		pureDone: map[string]bool{}, pureHeap: map[string]bool{}, axiomDone: map[string]bool{}, globals: map[string]string{}, counters: map[string]int{}, knownDyn: map[string]types.Type{}}
	return g
}

func (g *Gen) fresh(prefix string) string {
	g.nf++
	return fmt.Sprintf("%s_%d", prefix, g.nf)
}

func (g *Gen) emit(line string) { g.lines = append(g.lines, line) }

func (g *Gen) declare(prefix, srt string) string {
	if g.noHoist > 0 && !strings.HasPrefix(prefix, "strc") {
		fail("spec: an unknown value (%s) arises inside a quantified specification context; use a simpler accessor", prefix)
	}
	n := g.fresh(prefix)
	g.emit(fmt.Sprintf("(declare-const %s %s)", n, srt))
	return n
}

func (g *Gen) define(prefix, srt, expr string) string {
	// keep tiny terms inline
	if len(expr) < 24 && !strings.ContainsAny(expr, " ") {
		return expr
	}
	if g.noHoist > 0 {
		return expr // under binders: definitions cannot be hoisted to the top level
	}
	n := g.fresh(prefix)
	g.emit(fmt.Sprintf("(define-fun %s () %s %s)", n, srt, expr))
	if g.defs == nil {
		g.defs = map[string]string{}
	}
	g.defs[n] = expr
	return n
}

func (g *Gen) assume(cond string) {
	if cond == "true" || g.noHoist > 0 {
		return
	}
	g.emit("(assert " + cond + ")")
}

func (g *Gen) assumeUnder(path, cond string) {
	if cond == "true" || g.noHoist > 0 {
		return
	}
	if path == "true" {
		g.assume(cond)
		return
	}
	g.emit("(assert (=> " + path + " " + cond + "))")
}

func (g *Gen) note(s string) { g.notes[s] = true }

func and(a ...string) string {
	var out []string
	for _, x := range a {
		if x == "true" || x == "" {
			continue
		}
		if x == "false" {
			return "false"
		}
		out = append(out, x)
	}
	if len(out) == 0 {
		return "true"
	}
	if len(out) == 1 {
		return out[0]
	}
	return "(and " + strings.Join(out, " ") + ")"
}

func or(a ...string) string {
	var out []string
	for _, x := range a {
		if x == "false" || x == "" {
			continue
		}
		if x == "true" {
			return "true"
		}
		out = append(out, x)
	}
	if len(out) == 0 {
		return "false"
	}
	if len(out) == 1 {
		return out[0]
	}
	return "(or " + strings.Join(out, " ") + ")"
}

func not(a string) string {
	if a == "true" {
		return "false"
	}
	if a == "false" {
		return "true"
	}
	if strings.HasPrefix(a, "(not ") && balanced(a[5:len(a)-1]) {
		return a[5 : len(a)-1]
	}
	return "(not " + a + ")"
}

func balanced(s string) bool {
	d := 0
	for i, c := range s {
		if c == '(' {
			d++
		} else if c == ')' {
			d--
			if d < 0 {
				return false
			}
			if d == 0 && i != len(s)-1 {
				return false
			}
		} else if d == 0 && c == ' ' {
			return false
		}
	}
	return d == 0
}

func implies(a, b string) string {
	if a == "true" {
		return b
	}
	if b == "true" {
		return "true"
	}
	return "(=> " + a + " " + b + ")"
}

func ite(c, a, b string) string {
	if c == "true" {
		return a
	}
	if c == "false" {
		return b
	}
	if a == b {
		return a
	}
	return "(ite " + c + " " + a + " " + b + ")"
}

// ---- obligations ------------------------------------------------------------------------

func (g *Gen) obligationName(kind, site string) string {
	base := g.fnKey + "#" + kind
	if site != "" {
		base += ":" + site
	}
	g.counters[base]++
	if n := g.counters[base]; n > 1 {
		return fmt.Sprintf("%s.%d", base, n)
	}
	return base
}

// oblige records an obligation: under path, goal must hold.
func (g *Gen) oblige(kind, site, path, goal, clause string) *Obligation {
	if splitDebug && strings.HasPrefix(goal, "(and ") {
		// debugging aid (GOVC_SPLIT=1): one obligation per top-level conjunct
		var last *Obligation
		for i, c := range topArgs(goal) {
			last = g.oblige(kind, fmt.Sprintf("%s.c%d", site, i+1), path, c, clause+" [conjunct "+fmt.Sprint(i+1)+": "+trunc(c, 120)+"]")
		}
		return last
	}
	name := g.obligationName(kind, site)
	o := &Obligation{Name: name, Kind: kind, Fn: g.fnKey, Clause: clause, Mode: g.mode.String()}
	if g.con != nil {
		o.Props = g.con.Props
	}
	if goal == "true" || path == "false" {
		// trivially discharged; still counted, with a tiny script
		o.script = "TRIVIAL"
		g.obls = append(g.obls, o)
		return o
	}
	o.nlines = len(g.lines)
	o.script = "(assert " + and(path, not(goal)) + ")\n"
	o.goal, o.path = goal, path
	o.model = g.params
	o.sorts = g.S
	g.attachRegion(o)
	g.obls = append(g.obls, o)
	return o
}

// groupObligations makes one combined query for obligations sharing a path (all goals conjoined).
func (g *Gen) groupObligations(name string, obls []*Obligation) {
	var ms []*Obligation
	var goals []string
	path := ""
	for _, o := range obls {
		if o.script == "TRIVIAL" {
			continue
		}
		if path == "" {
			path = o.path
		}
		ms = append(ms, o)
		goals = append(goals, o.goal)
	}
	if len(ms) < 2 {
		return
	}
	gr := &oblGroup{name: name, members: ms, nlines: len(g.lines)}
	gr.script = "(assert " + and(path, not(and(goals...))) + ")\n"
	for _, o := range ms {
		o.group = gr
	}
	g.groups = append(g.groups, gr)
}

// cover records a reachability check (expected sat).
func (g *Gen) cover(site, path string) {
	name := g.obligationName("cover", site)
	o := &Obligation{Name: name, Kind: "cover", Fn: g.fnKey, Clause: "reachable", Mode: g.mode.String(), ExpectSat: true}
	if g.con != nil {
		o.Props = g.con.Props
	}
	o.nlines = len(g.lines)
	o.script = "(assert " + path + ")\n"
	g.obls = append(g.obls, o)
}

// finalize builds complete scripts (prelude computed last because sorts are discovered lazily).
func (g *Gen) finalize() {
	pre := g.S.prelude()
	var hb strings.Builder
	if g.needDivFns || g.mode == ModeInt {
		hb.WriteString(goDivDefs)
	}
	for _, l := range g.pureDecls {
		hb.WriteString(l)
		hb.WriteString("\n")
	}
	head := "(set-option :produce-models true)\n(set-logic ALL)\n" + pre + hb.String()
	body := func(n int) string {
		if n <= g.paramEnd || len(g.late) == 0 {
			return strings.Join(g.lines[:n], "\n") + "\n"
		}
		return strings.Join(g.lines[:g.paramEnd], "\n") + "\n" + strings.Join(g.late, "\n") + "\n" + strings.Join(g.lines[g.paramEnd:n], "\n") + "\n"
	}
	for _, gr := range g.groups {
		gr.script = head + body(gr.nlines) + gr.script + "(check-sat)\n"
	}
	for _, o := range g.obls {
		if o.script == "TRIVIAL" {
			continue
		}
		if o.regionTerm != "" {
			o.regionScript = head + body(o.nlines) + "(assert (not " + o.regionTerm + "))\n" + o.script + "(check-sat)\n"
		}
		o.prefix = head + body(o.nlines)
		o.script = o.prefix + o.script + "(check-sat)\n"
		o.SmtBytes = len(o.script)
		if o.oracle != "" {
			o.oracle = head + o.oracle + "(check-sat)\n"
		}
	}
}

const goDivDefs = `(define-fun go_div ((a Int) (b Int)) Int (ite (>= a 0) (ite (> b 0) (div a b) (- (div a (- b)))) (ite (> b 0) (- (div (- a) b)) (div (- a) (- b)))))
(define-fun go_rem ((a Int) (b Int)) Int (- a (* b (go_div a b))))
`

// ---- heap -------------------------------------------------------------------------------

type Heap struct {
	vals  map[string]string
	base  *Epoch
	// dirty: per heap key, an SMT Bool saying that some pre-existing (not freshly allocated) location of that key
	// may have been modified since function entry; key "*" covers every key (unknown callee).
	dirty map[string]string
}

type Epoch struct {
	id        int
	parts     []epochPart
	memo      map[string]string
	g         *Gen
	ghostPrev *Heap  // root epochs created by a heap havoc that keeps ghost state
	prev      *Heap  // layered epoch (after a call that may allocate): equal to prev on every object that existed (<= prevTop)
	prevTop   string
	onNew     func(key string) // called when the value of a key of this root epoch is first created
	top       string // allocation watermark when this (root) heap value came into being: every reference stored in it is <= top
}

type epochPart struct {
	cond string
	h    *Heap
}

func (g *Gen) newRootHeap() *Heap {
	g.nf++
	return &Heap{vals: map[string]string{}, base: &Epoch{id: g.nf, memo: map[string]string{}, g: g}}
}

func (g *Gen) heapKeySort(key, srt string) {
	if _, ok := g.heapSorts[key]; !ok {
		g.heapSorts[key] = srt
		g.heapOrder = append(g.heapOrder, key)
	}
}

func (h *Heap) get(g *Gen, key string) string {
	if v, ok := h.vals[key]; ok {
		return v
	}
	return h.base.get(key)
}

func (h *Heap) set(key, v string) {
	h.vals[key] = v
	if !strings.HasPrefix(key, "G:") {
		if h.dirty == nil {
			h.dirty = map[string]string{}
		}
		h.dirty[key] = "true"
	}
}

// setFresh records a write that only touches a freshly allocated object.
func (h *Heap) setFresh(key, v string) { h.vals[key] = v }

func (h *Heap) clone() *Heap {
	n := &Heap{vals: make(map[string]string, len(h.vals)), base: h.base}
	if len(h.dirty) > 0 {
		n.dirty = make(map[string]string, len(h.dirty))
		for k, v := range h.dirty {
			n.dirty[k] = v
		}
	}
	for k, v := range h.vals {
		n.vals[k] = v
	}
	return n
}

func (e *Epoch) get(key string) string {
	if v, ok := e.memo[key]; ok {
		return v
	}
	g := e.g
	srt := g.heapSorts[key]
	if srt == "" {
		panic("heap key without sort: " + key)
	}
	var v string
	if len(e.parts) == 0 && e.ghostPrev != nil && strings.HasPrefix(key, "G:") {
		v = e.ghostPrev.get(g, key)
	} else if len(e.parts) == 0 && e.prev != nil && strings.HasPrefix(key, "G:") {
		v = e.prev.get(g, key)
	} else if len(e.parts) == 0 && e.prev != nil {
		pv := e.prev.get(g, key)
		v = fmt.Sprintf("h%d_%s", e.id, sanitize(key))
		g.emit(fmt.Sprintf("(declare-const %s %s)", v, srt))
		g.heapConsts = append(g.heapConsts, v)
		if g.constKey == nil {
			g.constKey = map[string]string{}
		}
		g.constKey[v] = key
		r := g.fresh("lr")
		g.emit("(assert (forall ((" + r + " Int)) (! (=> (<= " + r + " " + e.prevTop + ") (= (select " + v + " " + r + ") (select " + pv + " " + r + "))) :pattern ((select " + v + " " + r + ")))))")
		g.heapRefBound(v, key, e.top)
	} else if len(e.parts) == 0 {
		v = fmt.Sprintf("h%d_%s", e.id, sanitize(key))
		g.emit(fmt.Sprintf("(declare-const %s %s)", v, srt))
		g.heapConsts = append(g.heapConsts, v)
		if g.constKey == nil {
			g.constKey = map[string]string{}
		}
		g.constKey[v] = key
		if e.top != "" && !strings.HasPrefix(key, "G:") {
			g.heapRefBound(v, key, e.top)
		}
		if strings.HasPrefix(key, "G:") {
			if gv := g.ghostRange(key); gv != "" {
				g.assume(strings.ReplaceAll(gv, "$v", v))
			}
		}
		if e.onNew != nil {
			e.memo[key] = v
			e.onNew(key)
		}
	} else {
		vals := make([]string, len(e.parts))
		same := true
		for i, p := range e.parts {
			vals[i] = p.h.get(g, key)
			if vals[i] != vals[0] {
				same = false
			}
		}
		if same {
			v = vals[0]
		} else {
			expr := vals[len(vals)-1]
			for i := len(vals) - 2; i >= 0; i-- {
				expr = ite(e.parts[i].cond, vals[i], expr)
			}
			// a declared constant (not a macro) so that heap terms stay atomic inside quantifier patterns
			nh := g.noHoist
			g.noHoist = 0 // merged heap values are ground terms: declare them at top level even under a binder
			v = g.declare("hm", srt)
			g.assume("(= " + v + " " + expr + ")")
			g.noHoist = nh
		}
	}
	e.memo[key] = v
	return v
}

func (g *Gen) ghostRange(key string) string { return "" }

// mergeHeaps creates a heap lazily selecting among parts by condition.
func (g *Gen) mergeHeaps(parts []epochPart) *Heap {
	if len(parts) == 1 {
		return parts[0].h.clone()
	}
	g.nf++
	d := map[string]string{}
	keys := map[string]bool{}
	for _, p := range parts {
		for k := range p.h.dirty {
			keys[k] = true
		}
	}
	var ks []string
	for k := range keys {
		ks = append(ks, k)
	}
	sort.Strings(ks)
	for _, k := range ks {
		var ds []string
		for _, p := range parts {
			if v := p.h.dirty[k]; v != "" && v != "false" {
				ds = append(ds, and(p.cond, v))
			}
		}
		if len(ds) > 0 {
			d[k] = g.define("dirty", "Bool", or(ds...))
		}
	}
	return &Heap{vals: map[string]string{}, base: &Epoch{id: g.nf, parts: parts, memo: map[string]string{}, g: g}, dirty: d}
}

// layerHeap: the heap after a call that may have allocated objects: every object that existed keeps the contents it
// has in h (the caller havocs the assigned locations afterwards or before); the contents of newer objects are unknown.
func (g *Gen) layerHeap(h *Heap) *Heap {
	g.nf++
	k := g.topKey()
	old := h.get(g, k)
	nt := g.declare("top", "Int")
	g.assume("(>= " + nt + " " + old + ")")
	n := &Heap{vals: map[string]string{k: nt}, base: &Epoch{id: g.nf, memo: map[string]string{}, g: g, prev: h, prevTop: old, top: nt}}
	if len(h.dirty) > 0 {
		n.dirty = make(map[string]string, len(h.dirty))
		for kk, v := range h.dirty {
			n.dirty[kk] = v
		}
	}
	return n
}

// havocHeap returns a heap where every non-ghost key is unknown; ghost keys (G:) are kept unless alsoGhost.
func (g *Gen) havocHeap(h *Heap, alsoGhost bool) *Heap {
	n := g.newRootHeap()
	n.dirty = map[string]string{"*": "true"}
	if !alsoGhost {
		n.base.ghostPrev = h
	}
	// the unknown callee may have allocated: new watermark, and everything stored in the new heap is below it
	k := g.topKey()
	old := h.get(g, k)
	nt := g.declare("top", "Int")
	g.assume("(>= " + nt + " " + old + ")")
	n.vals[k] = nt
	n.base.top = nt
	return n
}

// ---- heap keys --------------------------------------------------------------------------

func (g *Gen) setKeyType(key string, t types.Type) {
	if g.keyType == nil {
		g.keyType = map[string]types.Type{}
	}
	g.keyType[key] = t
}

func (g *Gen) fieldKey(st types.Type, i int) (key, srt string) {
	si := g.S.structInfoOf(st)
	key = fmt.Sprintf("H:%s.%d", si.name, i)
	srt = "(Array Int " + si.fsorts[i] + ")"
	if su, ok := st.Underlying().(*types.Struct); ok && i < su.NumFields() {
		g.setKeyType(key, su.Field(i).Type())
	}
	g.heapKeySort(key, srt)
	return
}

func (g *Gen) ptrKey(t types.Type) (key, srt string) {
	es := g.S.sortOf(t)
	key = "P:" + refKeyName(t, es)
	srt = "(Array Int " + es + ")"
	g.setKeyType(key, t)
	g.heapKeySort(key, srt)
	return
}

func (g *Gen) elemKey(t types.Type) (key, srt string) {
	es := g.S.sortOf(t)
	key = "E:" + refKeyName(t, es)
	srt = "(Array Int (Array " + g.idxSort() + " " + es + "))"
	g.setKeyType(key, t)
	g.heapKeySort(key, srt)
	return
}

// refKeyName: cells and elements that hold references live under their own heap key (references and mathematical
// integers share an SMT sort, but only references are bounded by the allocation watermark).
func refKeyName(t types.Type, es string) string {
	switch t.Underlying().(type) {
	case *types.Pointer, *types.Map, *types.Chan:
		// one key per pointer type: Go's type system keeps []*A and []*B (and *A, *B cells) apart
		return "Ref_" + sanitize(types.TypeString(types.Unalias(t), func(p *types.Package) string { return p.Name() }))
	}
	return es
}

func (g *Gen) ghostKey(name string, srt string) string {
	key := "G:" + name
	g.heapKeySort(key, srt)
	return key
}

// sorted list of heap keys, for deterministic output
func (g *Gen) heapKeys() []string {
	out := append([]string(nil), g.heapOrder...)
	sort.Strings(out)
	return out
}

// posOf renders the source position of an instruction as file:line (relative to the repository).
func (g *Gen) posOf(in ssa.Instruction) string {
	p := in.Pos()
	if !p.IsValid() {
		// returns have no position of their own: use the last positioned instruction of the block
		b := in.Block()
		for i := len(b.Instrs) - 1; i >= 0; i-- {
			if b.Instrs[i].Pos().IsValid() {
				p = b.Instrs[i].Pos()
				break
			}
		}
	}
	if !p.IsValid() {
		return ""
	}
	ps := g.P.prog.Fset.Position(p)
	return strings.TrimPrefix(ps.Filename, g.P.repo+"/") + ":" + fmt.Sprint(ps.Line)
}

// attachRegion: when the obligation is listed as a known finding with an input region, prepare the query
// that re-verifies it outside that region (a failure there is a different violation).
func (g *Gen) attachRegion(o *Obligation) {
	if g.con == nil || g.topFrame == nil {
		return
	}
	for _, k := range g.con.Known {
		if k.Region == "" {
			continue
		}
		match := k.Obligation == o.Name || (strings.HasSuffix(k.Obligation, "*") && strings.HasPrefix(o.Name, strings.TrimSuffix(k.Obligation, "*")))
		if !match {
			continue
		}
		e, err := parseSpec(k.Region)
		if err != nil {
			fail("known_findings.json: region of %s: %v", k.Obligation, err)
		}
		fr := g.topFrame
		t := fr.evalBool(e, &specCtx{fr: fr, st: fr.entry, old: fr.entry, kind: ctxPre, pkg: g.con.Pkg})
		o.regionTerm = g.define("region", "Bool", t)
		o.nlines = len(g.lines)
	}
}

// maybeDirty: some pre-existing location of key k may have been modified since function entry.
func (h *Heap) maybeDirty(k string) bool {
	if v := h.dirty["*"]; v != "" && v != "false" {
		return true
	}
	v := h.dirty[k]
	return v != "" && v != "false"
}

// dirtyFor: condition under which some key in keys (or anything at all) may have been modified in heap h.
func (h *Heap) dirtyFor(keys []string) string {
	var ds []string
	if v := h.dirty["*"]; v != "" && v != "false" {
		ds = append(ds, v)
	}
	for _, k := range keys {
		if k == "*all*" {
			var all []string
			for kk := range h.dirty {
				all = append(all, kk)
			}
			sort.Strings(all)
			for _, kk := range all {
				if v := h.dirty[kk]; v != "" && v != "false" {
					ds = append(ds, v)
				}
			}
			continue
		}
		if v := h.dirty[k]; v != "" && v != "false" {
			ds = append(ds, v)
		}
	}
	return or(ds...)
}

// heapRefBound: references held in a root heap value do not exceed the allocation watermark of that heap
// (so an object allocated later is distinct from everything reachable before).
func (g *Gen) heapRefBound(v, key, top string) {
	t := g.keyType[key]
	if t == nil {
		return
	}
	r := g.fresh("hr")
	var elem, binders string
	if strings.HasPrefix(key, "E:") {
		i := g.fresh("hi")
		elem = "(select (select " + v + " " + r + ") " + i + ")"
		binders = "(" + r + " Int) (" + i + " " + g.idxSort() + ")"
	} else {
		elem = "(select " + v + " " + r + ")"
		binders = "(" + r + " Int)"
	}
	b := g.refBoundOf(elem, t, top, 0)
	if b == "true" {
		return
	}
	g.emit("(assert (forall (" + binders + ") (! " + b + " :pattern (" + elem + "))))")
}

// refBoundOf: every reference directly contained in value term v of Go type t is <= top.
func (g *Gen) refBoundOf(v string, t types.Type, top string, depth int) string {
	switch u := t.Underlying().(type) {
	case *types.Pointer, *types.Map, *types.Chan:
		return "(<= " + v + " " + top + ")"
	case *types.Slice:
		return "(<= (sl_ref " + v + ") " + top + ")"
	case *types.Interface:
		g.S.needRef = true
		return "(<= (iface_ref " + v + ") " + top + ")"
	case *types.Struct:
		if depth > 3 {
			return "true"
		}
		var cs []string
		for i := 0; i < u.NumFields(); i++ {
			cs = append(cs, g.refBoundOf(g.S.structField(t, v, i), u.Field(i).Type(), top, depth+1))
		}
		return and(cs...)
	}
	return "true"
}

var splitDebug = os.Getenv("GOVC_SPLIT") != ""

func trunc(s string, n int) string {
	if len(s) > n {
		return s[:n] + "..."
	}
	return s
}

// topArgs: the arguments of the application "(f a b c)".
func topArgs(t string) []string {
	var out []string
	depth, start := 0, -1
	seenHead := false
	for i := 0; i < len(t); i++ {
		c := t[i]
		switch {
		case c == '(':
			if depth == 1 && start < 0 {
				start = i
			}
			depth++
		case c == ')':
			depth--
			if depth == 1 && start >= 0 && t[start] == '(' {
				if seenHead {
					out = append(out, t[start:i+1])
				}
				seenHead = true
				start = -1
			} else if depth == 0 && start >= 0 {
				if seenHead {
					out = append(out, t[start:i])
				}
				start = -1
			}
		case c == ' ' || c == '\n':
			if depth == 1 && start >= 0 && t[start] != '(' {
				if seenHead {
					out = append(out, t[start:i])
				}
				seenHead = true
				start = -1
			}
		case c == '|':
			if depth == 1 && start < 0 {
				start = i
			}
			for i++; i < len(t) && t[i] != '|'; i++ {
			}
		default:
			if depth == 1 && start < 0 {
				start = i
			}
		}
	}
	return out
}

var reDeclaredHeap = regexp.MustCompile(`^(h\d+_[A-Za-z0-9_]+|hm_\d+|lhp_\d+)$`)

// declaredHeapName: the heap value is a declared constant (usable inside a quantifier pattern), not a macro.
func declaredHeapName(t string) bool { return reDeclaredHeap.MatchString(t) }
