package main

// Per-function verification driver: entry state, requires, run, ensures, lemmas.

import (
	"fmt"
	"go/types"
	"os"
	"runtime/debug"
	"strings"

	"golang.org/x/tools/go/ssa"
)

// coverReturns: also check reachability of every return (thorough tier); cover:pre is always checked.
var coverReturns = false

type FuncResult struct {
	Key    string
	Mode   string
	Obls   []*Obligation
	Notes  []string
	Err    string // engine error (function outside subset / contract error)
	Instrs int
}

func (P *Program) verifyFunction(con *Contract) (res *FuncResult) {
	res = &FuncResult{Key: con.Key, Mode: con.Mode.String()}
	fn := P.funcs[con.Key]
	if fn == nil {
		res.Err = "function not found in program: " + con.Key
		return
	}
	g := newGen(P, fn, con, con.Mode)
	g.fnKey = con.Key
	g.needUni = map[string]bool{}
	g.useElemFn = contractHasQuantifier(con)
	defer func() {
		if r := recover(); r != nil {
			if ee, ok := r.(engineError); ok {
				res.Err = ee.msg
				res.Obls = nil
				return
			}
			res.Err = fmt.Sprintf("internal error: %v\n%s", r, debug.Stack())
			res.Obls = nil
		}
	}()
	for _, b := range fn.Blocks {
		res.Instrs += len(b.Instrs)
	}
	fr := g.newFrame(fn, 0)
	fr.top = true
	fr.con = con
	g.topFrame = fr
	fr.nopanic = !con.MayPanic
	g.stack = []*ssa.Function{fn}
	st := &State{cells: map[*Cell]string{}, heap: g.newRootHeap(), path: "true"}
	t0 := st.heap.get(g, g.topKey())
	g.assume("(>= " + t0 + " 0)")
	st.heap.base.top = t0
	// parameters
	for _, p := range fn.Params {
		v := g.paramVal(st, p.Name(), p.Type())
		fr.regs[p] = v
		fr.params = append(fr.params, v)
	}
	// free variables of closures: each is a pointer to a captured variable; model as fresh cells
	for _, fv := range fn.FreeVars {
		el := fv.Type().(*types.Pointer).Elem()
		g.nf++
		c := &Cell{id: g.nf, t: el, name: fv.Name()}
		iv := g.havocVal("fv_"+sanitize(fv.Name()), el)
		st.cells[c] = iv.S
		v := Val{T: fv.Type(), A: &Addr{cell: c, root: el}}
		fr.regs[fv] = v
		fr.freeVars = append(fr.freeVars, v)
	}
	g.paramEnd = len(g.lines)
	// every ghost variable is part of the state from the start (a loop must treat all of them as modifiable)
	var gnames []string
	for n := range P.specs.Ghosts {
		gnames = append(gnames, n)
	}
	sortStrings(gnames)
	for _, n := range gnames {
		g.ghostKeyFor(n)
	}
	fr.entry = st.clone()
	g.entry = fr.entry
	// known dynamic types from "requires dyn(p) == T"
	var walkDyn func(e SExpr)
	walkDyn = func(e SExpr) {
		switch x := e.(type) {
		case *SDynEq:
			if id, ok := x.X.(*SIdent); ok && !x.Neg {
				g.knownDyn[id.Name] = g.resolveType(x.T, con.Pkg)
			}
		case *SBinary:
			if x.Op == "&&" {
				walkDyn(x.X)
				walkDyn(x.Y)
			}
		}
	}
	for _, rq := range con.Requires {
		walkDyn(rq.Expr)
	}
	// requires
	for _, rq := range con.Requires {
		t := fr.evalBool(rq.Expr, &specCtx{fr: fr, st: st, old: fr.entry, kind: ctxPre, pkg: con.Pkg})
		g.assume(t)
	}
	g.cover("pre", "true")
	// replay oracles: each ensures clause over free result variables (evaluated on the entry state)
	oracles := map[int]string{}
	var oracleRes []modelVar
	func() {
		nh := g.noHoist
		defer func() { recover(); g.noHoist = nh }() // oracle construction is best effort
		var obs []Val
		for i := 0; i < fn.Signature.Results().Len(); i++ {
			rt := fn.Signature.Results().At(i).Type()
			v := g.declare(fmt.Sprintf("obs%d", i), g.S.sortOf(rt))
			obs = append(obs, Val{T: rt, S: v})
			oracleRes = append(oracleRes, modelVar{Name: fmt.Sprintf("result%d", i), Term: v, T: rt})
		}
		for ei, en := range con.Ensures {
			func() {
				nh := g.noHoist
				defer func() { recover(); g.noHoist = nh }()
				ctx := &specCtx{fr: fr, st: fr.entry, old: fr.entry, kind: ctxPost, pkg: con.Pkg, results: obs}
				t := fr.evalBool(en.Expr, ctx)
				oracles[ei] = strings.Join(g.lines, "\n") + "\n;;ORACLE-INPUTS\n(assert " + not(t) + ")\n"
			}()
		}
	}()
	fr.run(st)
	// ensures at each return
	for ri, r := range fr.rets {
		site := fmt.Sprintf("ret%d", ri+1)
		if coverReturns {
			g.cover(site, r.st.path)
		}
		var posts []*Obligation
		earlier := "true" // ensures clauses listed earlier are available as lemmas for later ones (each is proved on its own)
		for ei, en := range con.Ensures {
			ctx := &specCtx{fr: fr, st: r.st, old: fr.entry, kind: ctxPost, pkg: con.Pkg, results: r.vals}
			t := fr.evalBool(en.Expr, ctx)
			nm := fmt.Sprintf("%d", ei+1)
			if en.Tag != "" {
				nm = en.Tag
			}
			tn := g.define("ens", "Bool", t)
			o := g.oblige("post", nm+"@"+site, and(r.st.path, earlier), tn, "ensures "+en.Text+"  [return near "+r.pos+"]")
			earlier = and(earlier, tn)
			if oc, ok := oracles[ei]; ok && o.script != "TRIVIAL" {
				o.oracle = oc
				o.oracleRes = oracleRes
			}
			posts = append(posts, o)
		}
		for ci, ck := range con.Checks {
			ctx := &specCtx{fr: fr, st: r.st, old: fr.entry, kind: ctxPost, pkg: con.Pkg, results: r.vals}
			t := fr.evalBool(ck.Expr, ctx)
			nm := fmt.Sprintf("check%d", ci+1)
			if ck.Tag != "" {
				nm = ck.Tag
			}
			o := g.oblige("post", nm+"@"+site, and(r.st.path, earlier), t, "check "+ck.Text+"  [return near "+r.pos+"]")
			posts = append(posts, o)
		}
		g.groupObligations(g.fnKey+"#postgroup@"+site, posts)
		if con.HasAssigns {
			fr.frameObligation(r.st, site)
			if con.NoAlloc {
				g.oblige("noalloc", site, r.st.path, "(= "+r.st.heap.get(g, g.topKey())+" "+fr.entry.heap.get(g, g.topKey())+")", "noalloc: the function allocates nothing")
			}
		}
	}
	if len(fr.rets) == 0 {
		g.note("function has no normal return path")
	}
	g.finalizeAll()
	res.Obls = g.obls
	for n := range g.notes {
		res.Notes = append(res.Notes, n)
	}
	sortStrings(res.Notes)
	return
}

// paramVal creates the symbolic entry value of a parameter.
func (g *Gen) paramVal(st *State, name string, t types.Type) Val {
	v := g.declare("in_"+sanitize(name), g.S.sortOf(t))
	g.assume(g.typeRange(v, t))
	val := Val{T: t, S: v}
	g.knownRef(st, v, t)
	g.params = append(g.params, modelVar{Name: name, Term: v, T: t})
	return val
}

// frameObligation: every heap location not named in assigns is unchanged at return (objects allocated by the function excepted).
func (fr *Frame) frameObligation(st *State, site string) {
	if os.Getenv("GOVC_FRAMESPLIT") != "" {
		fr.frameFormula(st)
		for k, gl := range fr.lastFrameParts {
			fr.g.oblige("frame", site+"."+sanitize(k), st.path, gl, "assigns clause (key "+k+")")
		}
		return
	}
	fr.g.oblige("frame", site, st.path, fr.frameFormula(st), "assigns clause: nothing else is modified")
}

// frameFormula: every pre-existing heap location outside the assigns clause has its entry value in st.
func (fr *Frame) frameFormula(st *State) string {
	g := fr.g
	allowed, allowAll := fr.frameAllowed()
	var goals []string
	fr.lastFrameParts = map[string]string{}
	for _, k := range g.heapKeys() {
		if gl := fr.frameForKey(st, k, allowed, allowAll); gl != "" {
			goals = append(goals, gl)
			fr.lastFrameParts[k] = gl
		}
	}
	return and(goals...)
}

// frameForKey: the frame condition of one heap key ("" when nothing is to be shown).
func (fr *Frame) frameForKey(st *State, k string, allowed map[string][]string, allowAll map[string]bool) string {
	g := fr.g
	if k == "G:$top" || allowAll[k] {
		return ""
	}
	if !strings.HasPrefix(k, "G:") && !st.heap.maybeDirty(k) {
		return "" // no pre-existing location of this key has been written
	}
	cur := st.heap.get(g, k)
	old := fr.entry.heap.get(g, k)
	if cur == old {
		return ""
	}
	if strings.HasPrefix(k, "G:") {
		return "(= " + cur + " " + old + ")"
	}
	top0 := fr.entry.heap.get(g, g.topKey())
	r := g.fresh("fr")
	conds := []string{"(<= " + r + " " + top0 + ")", "(not (= " + r + " 0))"} // reference 0 is nil: no object lives there
	for _, a := range allowed[k] {
		conds = append(conds, "(not (= "+r+" "+a+"))")
	}
	body := "(=> " + and(conds...) + " (= (select " + cur + " " + r + ") (select " + old + " " + r + ")))"
	if !declaredHeapName(cur) {
		return "(forall ((" + r + " Int)) " + body + ")" // not an atomic heap value: no usable pattern
	}
	return "(forall ((" + r + " Int)) (! " + body + " :pattern ((select " + cur + " " + r + "))))"
}

// frameAllowed: what the assigns clause permits (key -> references of the objects that may change; whole keys).
func (fr *Frame) frameAllowed() (map[string][]string, map[string]bool) {
	if fr.allowedMemo != nil {
		return fr.allowedMemo, fr.allowAllMemo
	}
	g := fr.g
	con := fr.con
	// collect allowed (key -> list of refs) from assigns
	allowed := map[string][]string{}
	allowAll := map[string]bool{}
	ctx := &specCtx{fr: fr, st: fr.entry, old: fr.entry, kind: ctxPre, pkg: con.Pkg}
	for _, as := range con.Assigns {
		ae := as.Expr
		if u, ok := ae.(*SUnary); ok && u.Op == "*" {
			ae = u.X // *p: the whole object p points to
		}
		switch x := ae.(type) {
		case *SIdent:
			if _, ok := g.P.specs.Ghosts[x.Name]; ok {
				allowAll["G:"+x.Name] = true
				continue
			}
			sv := fr.evalSpec(ae, ctx)
			if pt, ok := sv.T.Underlying().(*types.Pointer); ok {
				if stt, ok := pt.Elem().Underlying().(*types.Struct); ok {
					for i := 0; i < stt.NumFields(); i++ {
						k, _ := g.fieldKey(pt.Elem(), i)
						allowed[k] = append(allowed[k], sv.Term)
					}
				} else {
					k, _ := g.ptrKey(pt.Elem())
					allowed[k] = append(allowed[k], sv.Term)
				}
			}
		case *SCall:
			if x.Fun == "elems" && len(x.Args) == 1 {
				sv := fr.evalSpec(x.Args[0], ctx)
				if sl, ok := sv.T.Underlying().(*types.Slice); ok {
					k, _ := g.elemKey(sl.Elem())
					allowed[k] = append(allowed[k], "(sl_ref "+sv.Term+")")
				}
			}
		case *SSel:
			if k, _ := g.typeFieldKey(x, con.Pkg, fr.isLocalName); k != "" {
				allowAll[k] = true // T.f: field f of every object of type T
				continue
			}
			base := fr.evalSpec(x.X, ctx)
			a, _ := fr.fieldAddr(base, x.Name)
			if a.cell != nil {
				continue
			}
			if _, ok := a.root.Underlying().(*types.Struct); ok && len(a.path) > 0 {
				k, _ := g.fieldKey(a.root, a.path[0].field)
				allowed[k] = append(allowed[k], a.ref)
			}
		}
	}
	fr.allowedMemo, fr.allowAllMemo = allowed, allowAll
	return allowed, allowAll
}

// lateParamAssumptions: for every interface-typed parameter and every dynamic type seen in the script,
// the boxed value respects the invariants of its Go type (slice lengths non-negative, integers in range).
func (g *Gen) lateParamAssumptions() {
	for _, mv := range g.params {
		if mv.T == nil || !isIface(mv.T) {
			continue
		}
		for _, c := range g.S.consList {
			rng := g.typeRange("("+c.sel+" "+mv.Term+")", c.t)
			if rng != "true" {
				g.late = append(g.late, "(assert (=> ((_ is "+c.name+") "+mv.Term+") "+rng+"))")
			}
		}
	}
}

func (g *Gen) finalizeAll() {
	g.lateParamAssumptions()
	td := g.trustedDecls()
	if td != "" {
		g.pureDecls = append([]string{td}, g.pureDecls...)
	}
	g.finalize()
}

// verifyLemma: a lemma is a closed formula over spec functions.
func (P *Program) verifyLemma(l *Lemma) (res *FuncResult) {
	key := l.Pkg + "#lemma:" + l.Name
	res = &FuncResult{Key: key, Mode: l.Mode.String()}
	con := &Contract{Key: key, Pkg: l.Pkg, Props: l.Props, Mode: l.Mode}
	g := newGen(P, nil, con, l.Mode)
	g.fnKey = l.Pkg
	g.needUni = map[string]bool{}
	defer func() {
		if r := recover(); r != nil {
			if ee, ok := r.(engineError); ok {
				res.Err = ee.msg
				res.Obls = nil
				return
			}
			res.Err = fmt.Sprintf("internal error: %v\n%s", r, debug.Stack())
			res.Obls = nil
		}
	}()
	fr := g.newFrame(nil, 0)
	st := &State{cells: map[*Cell]string{}, heap: g.newRootHeap(), path: "true"}
	g.entry = st
	ctx := &specCtx{fr: fr, st: st, kind: ctxPure, pkg: l.Pkg, bound: map[string]SV{}}
	for _, p := range l.Params {
		s := g.specSort(p.T, l.Pkg)
		n := g.declare("lp_"+p.Name, s)
		sv := g.specSV(n, p.T, l.Pkg)
		if sv.K == svGo {
			g.assume(g.typeRange(n, sv.T))
		}
		ctx.bound[p.Name] = sv
		g.params = append(g.params, modelVar{Name: p.Name, Term: n, T: sv.T})
	}
	g.paramEnd = len(g.lines)
	t := fr.evalBool(l.Expr, ctx)
	name := "lemma:" + l.Name
	o := &Obligation{Name: l.Pkg + "#" + name, Kind: "lemma", Fn: key, Clause: l.Text, Mode: l.Mode.String(), Props: l.Props}
	o.nlines = len(g.lines)
	o.script = "(assert " + not(t) + ")\n"
	o.model = g.params
	o.sorts = g.S
	g.obls = append(g.obls, o)
	g.finalizeAll()
	res.Obls = g.obls
	for n := range g.notes {
		res.Notes = append(res.Notes, n)
	}
	sortStrings(res.Notes)
	return
}

func contractHasQuantifier(con *Contract) bool {
	has := func(cs []*Clause) bool {
		for _, c := range cs {
			if strings.Contains(c.Text, "forall") || strings.Contains(c.Text, "exists") {
				return true
			}
		}
		return false
	}
	if has(con.Requires) || has(con.Ensures) || has(con.Asserts) || has(con.Checks) {
		return true
	}
	for _, cs := range con.CallSites {
		if has([]*Clause{cs.Clause}) {
			return true
		}
	}
	for _, l := range con.Loops {
		if has(l.Invariants) {
			return true
		}
	}
	return false
}
