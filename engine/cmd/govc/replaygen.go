package main

// Replay of solver counterexamples against the real code (go test -overlay, nothing written to /repo).

import (
	"bytes"
	"context"
	"encoding/json"
	"fmt"
	"go/types"
	"math/big"
	"os"
	"os/exec"
	"path/filepath"
	"strconv"
	"strings"
	"time"
)

// ---- s-expressions ------------------------------------------------------------------------------

type sx struct {
	atom string
	list []*sx
}

func (s *sx) isAtom() bool { return s.list == nil && s.atom != "" }
func (s *sx) String() string {
	if s.list == nil {
		return s.atom
	}
	var p []string
	for _, c := range s.list {
		p = append(p, c.String())
	}
	return "(" + strings.Join(p, " ") + ")"
}

func parseSx(src string) (*sx, error) {
	p := 0
	var rec func() (*sx, error)
	rec = func() (*sx, error) {
		for p < len(src) && (src[p] == ' ' || src[p] == '\n' || src[p] == '\t') {
			p++
		}
		if p >= len(src) {
			return nil, fmt.Errorf("eof")
		}
		if src[p] == '(' {
			p++
			n := &sx{list: []*sx{}}
			for {
				for p < len(src) && (src[p] == ' ' || src[p] == '\n' || src[p] == '\t') {
					p++
				}
				if p >= len(src) {
					return nil, fmt.Errorf("unbalanced")
				}
				if src[p] == ')' {
					p++
					return n, nil
				}
				c, err := rec()
				if err != nil {
					return nil, err
				}
				n.list = append(n.list, c)
			}
		}
		q := p
		if src[p] == '"' {
			p++
			for p < len(src) && src[p] != '"' {
				p++
			}
			p++
		} else {
			for p < len(src) && !strings.ContainsRune(" \n\t()", rune(src[p])) {
				p++
			}
		}
		return &sx{atom: src[q:p]}, nil
	}
	return rec()
}

func (s *sx) head() string {
	if s.list != nil && len(s.list) > 0 && s.list[0].isAtom() {
		return s.list[0].atom
	}
	return ""
}

// intOf decodes an integer literal (Int or BitVec) with the given signedness/bits (bits=0: Int).
func intOf(s *sx, bits int, signed bool) (*big.Int, bool) {
	if s.isAtom() {
		a := s.atom
		if strings.HasPrefix(a, "#x") {
			b, ok := new(big.Int).SetString(a[2:], 16)
			if !ok {
				return nil, false
			}
			return fixSign(b, (len(a)-2)*4, signed), true
		}
		if strings.HasPrefix(a, "#b") {
			b, ok := new(big.Int).SetString(a[2:], 2)
			if !ok {
				return nil, false
			}
			return fixSign(b, len(a)-2, signed), true
		}
		b, ok := new(big.Int).SetString(a, 10)
		return b, ok
	}
	if s.head() == "-" && len(s.list) == 2 {
		b, ok := intOf(s.list[1], bits, signed)
		if !ok {
			return nil, false
		}
		return new(big.Int).Neg(b), true
	}
	if s.head() == "_" && len(s.list) == 3 && strings.HasPrefix(s.list[1].atom, "bv") {
		b, ok := new(big.Int).SetString(s.list[1].atom[2:], 10)
		w, _ := strconv.Atoi(s.list[2].atom)
		if !ok {
			return nil, false
		}
		return fixSign(b, w, signed), true
	}
	return nil, false
}

func fixSign(b *big.Int, width int, signed bool) *big.Int {
	if signed && width > 0 && b.Bit(width-1) == 1 {
		return new(big.Int).Sub(b, new(big.Int).Lsh(big.NewInt(1), uint(width)))
	}
	return b
}

// arrayLookup evaluates a model array value at integer index i (best effort).
func arrayLookup(arr *sx, i int64) *sx {
	for {
		if arr.list == nil {
			return nil
		}
		switch {
		case arr.head() == "store" && len(arr.list) == 4:
			k, ok := intOf(arr.list[2], 0, true)
			if ok && k.IsInt64() && k.Int64() == i {
				return arr.list[3]
			}
			arr = arr.list[1]
		case len(arr.list) == 2 && arr.list[0].head() == "as" && arr.list[0].list[1].atom == "const":
			return arr.list[1]
		default:
			return nil
		}
	}
}

// ---- model value -> Go expression -----------------------------------------------------------------

type goConv struct {
	S    *Sorts
	pkg  *types.Package
	mode IntMode
	need map[string]bool // imports
}

func (c *goConv) typeStr(t types.Type) string {
	return types.TypeString(t, func(p *types.Package) string {
		if p == c.pkg {
			return ""
		}
		c.need[p.Path()] = true
		return p.Name()
	})
}

func (c *goConv) expr(v *sx, t types.Type) (string, error) {
	switch u := t.Underlying().(type) {
	case *types.Basic:
		switch {
		case isBool(t):
			if v.atom != "true" && v.atom != "false" {
				return "", fmt.Errorf("bad bool %s", v)
			}
			return c.typeStr(t) + "(" + v.atom + ")", nil
		case isString(t):
			b, err := c.strBytes(v)
			if err != nil {
				return "", err
			}
			return c.typeStr(t) + "(" + strconv.Quote(string(b)) + ")", nil
		}
		if bits, ok := isFloat(t); ok {
			fb, err := fpBits(v, bits)
			if err != nil {
				return "", err
			}
			c.need["math"] = true
			if bits == 32 {
				return fmt.Sprintf("%s(math.Float32frombits(0x%x))", c.typeStr(t), fb), nil
			}
			return fmt.Sprintf("%s(math.Float64frombits(0x%x))", c.typeStr(t), fb), nil
		}
		if bits, signed, ok := intInfo(t); ok {
			n, ok := intOf(v, bits, signed)
			if !ok {
				return "", fmt.Errorf("bad int %s", v)
			}
			return c.typeStr(t) + "(" + n.String() + ")", nil
		}
		_ = u
	case *types.Interface:
		if v.isAtom() && v.atom == "iface_nil" {
			return "nil", nil
		}
		h := v.head()
		for _, ci := range c.S.consList {
			if ci.name == h && len(v.list) == 2 {
				inner, err := c.expr(v.list[1], ci.t)
				if err != nil {
					return "", err
				}
				return c.typeStr(t) + "(" + inner + ")", nil
			}
		}
		return "", fmt.Errorf("interface value of unknown dynamic type: %s", truncate(v.String(), 80))
	case *types.Struct:
		si := c.S.structInfoOf(t)
		if v.head() != "mk_"+si.name {
			return "", fmt.Errorf("bad struct value %s", truncate(v.String(), 80))
		}
		var parts []string
		for i := 0; i < u.NumFields(); i++ {
			fe, err := c.expr(v.list[1+i], u.Field(i).Type())
			if err != nil {
				return "", err
			}
			parts = append(parts, u.Field(i).Name()+": "+fe)
		}
		return c.typeStr(t) + "{" + strings.Join(parts, ", ") + "}", nil
	case *types.Pointer:
		if n, ok := intOf(v, 0, true); ok && n.Sign() == 0 {
			return "(" + c.typeStr(t) + ")(nil)", nil
		}
		return "", fmt.Errorf("non-nil pointer input not replayable")
	case *types.Slice:
		if v.head() == "mk_slice" {
			if n, ok := intOf(v.list[1], 0, true); ok && n.Sign() == 0 {
				return c.typeStr(t) + "(nil)", nil
			}
		}
		return "", fmt.Errorf("non-nil slice input not replayable")
	}
	return "", fmt.Errorf("type %s not replayable", t)
}

func (c *goConv) strBytes(v *sx) ([]byte, error) {
	if v.isAtom() {
		return nil, fmt.Errorf("opaque string value %s", v.atom)
	}
	if v.head() != "mk_str" || len(v.list) != 4 {
		return nil, fmt.Errorf("bad string value %s", truncate(v.String(), 80))
	}
	off, ok1 := intOf(v.list[2], 64, true)
	ln, ok2 := intOf(v.list[3], 64, true)
	if !ok1 || !ok2 || ln.Sign() < 0 || ln.Int64() > 4096 {
		return nil, fmt.Errorf("string too long or malformed (len %v)", ln)
	}
	out := make([]byte, ln.Int64())
	for i := int64(0); i < ln.Int64(); i++ {
		e := arrayLookup(v.list[1], off.Int64()+i)
		if e == nil {
			out[i] = 'x'
			continue
		}
		n, ok := intOf(e, 8, false)
		if !ok {
			out[i] = 'x'
			continue
		}
		out[i] = byte(n.Int64())
	}
	return out, nil
}

func fpBits(v *sx, bits int) (uint64, error) {
	eb, sb := 11, 52
	if bits == 32 {
		eb, sb = 8, 23
	}
	if v.head() == "fp" && len(v.list) == 4 {
		s, _ := intOf(v.list[1], 0, false)
		e, _ := intOf(v.list[2], 0, false)
		m, _ := intOf(v.list[3], 0, false)
		if s == nil || e == nil || m == nil {
			return 0, fmt.Errorf("bad fp %s", v)
		}
		return s.Uint64()<<uint(eb+sb) | e.Uint64()<<uint(sb) | m.Uint64(), nil
	}
	if v.head() == "_" && len(v.list) == 4 {
		expAll := (uint64(1)<<uint(eb) - 1) << uint(sb)
		switch v.list[1].atom {
		case "+zero":
			return 0, nil
		case "-zero":
			return 1 << uint(eb+sb), nil
		case "+oo":
			return expAll, nil
		case "-oo":
			return 1<<uint(eb+sb) | expAll, nil
		case "NaN":
			return expAll | 1<<uint(sb-1), nil
		}
	}
	return 0, fmt.Errorf("bad fp value %s", v)
}

// ---- test generation -------------------------------------------------------------------------------

const replayHelpers = `
func govcEnc(v interface{}) string {
	if v == nil {
		return "nil"
	}
	if e, ok := v.(error); ok {
		rv := reflect.ValueOf(v)
		if rv.Kind() == reflect.Ptr && rv.IsNil() {
			return "nil"
		}
		return "error:" + strconv.Quote(e.Error())
	}
	rv := reflect.ValueOf(v)
	tn := rv.Type().String()
	switch rv.Kind() {
	case reflect.Bool:
		return fmt.Sprintf("%s:bool:%v", tn, rv.Bool())
	case reflect.Int, reflect.Int8, reflect.Int16, reflect.Int32, reflect.Int64:
		return fmt.Sprintf("%s:int:%d", tn, rv.Int())
	case reflect.Uint, reflect.Uint8, reflect.Uint16, reflect.Uint32, reflect.Uint64, reflect.Uintptr:
		return fmt.Sprintf("%s:uint:%d", tn, rv.Uint())
	case reflect.Float32:
		return fmt.Sprintf("%s:f32:%d", tn, math.Float32bits(float32(rv.Float())))
	case reflect.Float64:
		return fmt.Sprintf("%s:f64:%d", tn, math.Float64bits(rv.Float()))
	case reflect.String:
		return fmt.Sprintf("%s:str:%x", tn, rv.String())
	case reflect.Struct:
		s := tn + ":struct:{"
		for i := 0; i < rv.NumField(); i++ {
			f := rv.Field(i)
			if i > 0 {
				s += ";"
			}
			switch f.Kind() {
			case reflect.Int, reflect.Int8, reflect.Int16, reflect.Int32, reflect.Int64:
				s += fmt.Sprintf("int:%d", f.Int())
			case reflect.String:
				s += fmt.Sprintf("str:%x", f.String())
			case reflect.Bool:
				s += fmt.Sprintf("bool:%v", f.Bool())
			default:
				s += "?"
			}
		}
		return s + "}"
	case reflect.Ptr, reflect.Slice, reflect.Map, reflect.Func, reflect.Interface:
		if rv.IsNil() {
			return tn + ":nilref"
		}
		return tn + ":ref"
	}
	return tn + ":?"
}
`

type replayPlan struct {
	pkgDir  string
	pkgName string
	test    string
}

type replayTest struct {
	pkg     string
	fnSrc   string // body of the test function: "func TestGovcReplay_N(t *testing.T) {...}" with name placeholder GOVCNAME
	imports map[string]bool
	inputs  map[string]string
}

func (P *Program) buildReplayTest(o *Obligation, vals map[string]string) (*replayTest, error) {
	fn := P.funcs[o.Fn]
	if fn == nil {
		return nil, fmt.Errorf("no function for %s", o.Fn)
	}
	if fn.Parent() != nil {
		return nil, fmt.Errorf("closures are not replayable directly")
	}
	if o.sorts == nil {
		return nil, fmt.Errorf("no sorts")
	}
	cv := &goConv{S: o.sorts, pkg: fn.Pkg.Pkg, mode: o.sorts.mode, need: map[string]bool{}}
	var args []string
	inputs := map[string]string{}
	for _, mv := range o.model {
		raw, ok := vals[mv.Term]
		var e string
		if !ok || raw == "" {
			e = "*new(" + cv.typeStr(mv.T) + ")"
		} else {
			tree, err := parseSx(raw)
			if err != nil {
				return nil, err
			}
			ge, err := cv.expr(tree, mv.T)
			if err != nil {
				return nil, fmt.Errorf("parameter %s: %v", mv.Name, err)
			}
			e = ge
		}
		args = append(args, e)
		inputs[mv.Name] = e
	}
	sig := fn.Signature
	var call string
	if sig.Recv() != nil {
		if len(args) == 0 {
			return nil, fmt.Errorf("missing receiver")
		}
		call = "(" + args[0] + ")." + fn.Name() + "(" + strings.Join(args[1:], ", ") + ")"
	} else {
		call = fn.Name() + "(" + strings.Join(args, ", ") + ")"
	}
	nres := sig.Results().Len()
	var lhs []string
	for i := 0; i < nres; i++ {
		lhs = append(lhs, fmt.Sprintf("r%d", i))
	}
	var b strings.Builder
	fmt.Fprintf(&b, "func GOVCNAME(t *testing.T) {\n\tdefer func() {\n\t\tif r := recover(); r != nil {\n\t\t\tfmt.Printf(\"GOVC-PANIC %%v\\n\", r)\n\t\t}\n\t}()\n")
	if nres > 0 {
		fmt.Fprintf(&b, "\t%s := %s\n", strings.Join(lhs, ", "), call)
		for i := 0; i < nres; i++ {
			fmt.Fprintf(&b, "\tfmt.Printf(\"GOVC-RESULT %d %%s\\n\", govcEnc(r%d))\n", i, i)
		}
	} else {
		fmt.Fprintf(&b, "\t%s\n", call)
	}
	b.WriteString("\tfmt.Println(\"GOVC-DONE\")\n}\n")
	return &replayTest{pkg: fn.Pkg.Pkg.Name(), fnSrc: b.String(), imports: cv.need, inputs: inputs}, nil
}

// assembleTestFile builds one _test.go file holding several replay functions.
func assembleTestFile(pkg string, tests []*replayTest, names []string) string {
	var b strings.Builder
	imps := map[string]bool{}
	for _, t := range tests {
		for k := range t.imports {
			imps[k] = true
		}
	}
	fmt.Fprintf(&b, "package %s\n\nimport (\n\t\"fmt\"\n\t\"math\"\n\t\"reflect\"\n\t\"strconv\"\n\t\"testing\"\n", pkg)
	for _, imp := range sortedKeys(imps) {
		if imp != "math" && imp != "fmt" && imp != "reflect" && imp != "strconv" && imp != "testing" {
			fmt.Fprintf(&b, "\t%q\n", imp)
		}
	}
	b.WriteString(")\n\nvar _ = math.Pi\nvar _ = strconv.Itoa\nvar _ = reflect.TypeOf\n")
	b.WriteString(replayHelpers)
	for i, t := range tests {
		b.WriteString("\n")
		b.WriteString(strings.Replace(t.fnSrc, "GOVCNAME", names[i], 1))
	}
	return b.String()
}

// runGoTestNamed injects a test file into package pkg via -overlay and runs the named test.
func runGoTestNamed(repo, pkg, test, run string) (string, bool) {
	dir, err := os.MkdirTemp("", "govc-witness-")
	if err != nil {
		return err.Error(), false
	}
	defer os.RemoveAll(dir)
	tf := filepath.Join(dir, "zz_govc_witness_test.go")
	os.WriteFile(tf, []byte(test), 0o644)
	ov := map[string]map[string]string{"Replace": {filepath.Join(repo, pkg, "zz_govc_witness_test.go"): tf}}
	ob, _ := json.Marshal(ov)
	of := filepath.Join(dir, "ov.json")
	os.WriteFile(of, ob, 0o644)
	ctx, cancel := context.WithTimeout(context.Background(), 180*time.Second)
	defer cancel()
	cmd := exec.CommandContext(ctx, "go", "test", "-overlay", of, "-vet=off", "-timeout", "60s", "-run", "^"+run+"$", "-count=1", "-v", "./"+pkg+"/")
	cmd.Dir = repo
	cmd.Env = goEnv()
	var out bytes.Buffer
	cmd.Stdout = &out
	cmd.Stderr = &out
	err = cmd.Run()
	return out.String(), err == nil
}

// runGoTest injects test into the package of fnKey via -overlay and runs it. Returns output and whether it ran.
func runGoTest(repo, fnKey, test string) (string, bool) {
	pkg := strings.SplitN(fnKey, ".", 2)[0]
	if i := strings.Index(pkg, "#"); i >= 0 {
		pkg = pkg[:i]
	}
	dir, err := os.MkdirTemp("", "govc-replay-")
	if err != nil {
		return err.Error(), false
	}
	defer os.RemoveAll(dir)
	tf := filepath.Join(dir, "zz_govc_replay_test.go")
	os.WriteFile(tf, []byte(test), 0o644)
	ov := map[string]map[string]string{"Replace": {filepath.Join(repo, pkg, "zz_govc_replay_test.go"): tf}}
	ob, _ := json.Marshal(ov)
	of := filepath.Join(dir, "ov.json")
	os.WriteFile(of, ob, 0o644)
	ctx, cancel := context.WithTimeout(context.Background(), 180*time.Second)
	defer cancel()
	cmd := exec.CommandContext(ctx, "go", "test", "-overlay", of, "-vet=off", "-timeout", "60s", "-run", "^TestGovcReplay", "-count=1", "-v", "./"+pkg+"/")
	cmd.Dir = repo
	cmd.Env = goEnv()
	var out bytes.Buffer
	cmd.Stdout = &out
	cmd.Stderr = &out
	err = cmd.Run()
	s := out.String()
	return s, strings.Contains(s, "GOVC-DONE") || strings.Contains(s, "GOVC-PANIC")
}

// observedToSMT converts an encoded observed result to an SMT term of the sort of static type t.
func observedToSMT(S *Sorts, enc string, t types.Type) (string, string, error) {
	// returns (term, extraAssertion)
	if isIface(t) {
		if enc == "nil" || strings.HasSuffix(enc, ":nilref") {
			return "iface_nil", "", nil
		}
		if strings.HasPrefix(enc, "error:") {
			return "", "nonnil", nil
		}
		parts := strings.SplitN(enc, ":", 3)
		if len(parts) < 3 {
			return "", "nonnil", nil
		}
		for _, ci := range S.consList {
			if ci.key == parts[0] {
				inner, _, err := observedToSMT(S, enc, ci.t)
				if err != nil {
					return "", "", err
				}
				return "(" + ci.name + " " + inner + ")", "", nil
			}
		}
		return "", "nonnil", nil
	}
	parts := strings.SplitN(enc, ":", 3)
	if len(parts) < 3 {
		return "", "", fmt.Errorf("cannot decode %q", enc)
	}
	kind, val := parts[1], parts[2]
	switch kind {
	case "bool":
		return val, "", nil
	case "int", "uint":
		bits, _, ok := intInfo(t)
		if !ok {
			return "", "", fmt.Errorf("int result for %s", t)
		}
		n, _ := new(big.Int).SetString(val, 10)
		if S.mode == ModeInt {
			if n.Sign() < 0 {
				return "(- " + new(big.Int).Neg(n).String() + ")", "", nil
			}
			return n.String(), "", nil
		}
		if n.Sign() < 0 {
			n.Add(n, new(big.Int).Lsh(big.NewInt(1), uint(bits)))
		}
		return bvConst(n.Uint64(), bits), "", nil
	case "f64":
		u, _ := strconv.ParseUint(val, 10, 64)
		return fmt.Sprintf("(fp #b%01b #b%011b #b%052b)", u>>63, (u>>52)&0x7ff, u&0xfffffffffffff), "", nil
	case "f32":
		u, _ := strconv.ParseUint(val, 10, 32)
		return fmt.Sprintf("(fp #b%01b #b%08b #b%023b)", u>>31, (u>>23)&0xff, u&0x7fffff), "", nil
	case "struct":
		st, ok := t.Underlying().(*types.Struct)
		if !ok {
			return "", "", fmt.Errorf("struct result for %s", t)
		}
		body := strings.TrimSuffix(strings.TrimPrefix(val, "{"), "}")
		fs := strings.Split(body, ";")
		if len(fs) != st.NumFields() {
			return "", "", fmt.Errorf("struct arity")
		}
		var terms []string
		for i, f := range fs {
			ft := st.Field(i).Type()
			if f == "?" {
				return "", "", fmt.Errorf("struct field not encodable")
			}
			kv := strings.SplitN(f, ":", 2)
			term, _, err := observedToSMT(S, "x:"+kv[0]+":"+kv[1], ft)
			if err != nil {
				return "", "", err
			}
			terms = append(terms, term)
		}
		return S.mkStruct(t, terms), "", nil
	case "str":
		return "", "", fmt.Errorf("string results are not encoded")
	}
	return "", "", fmt.Errorf("cannot encode observed %q", enc)
}

// splitTestOutput cuts "go test -v" output into per-test sections.
func splitTestOutput(out string) map[string]string {
	res := map[string]string{}
	cur := ""
	for _, line := range strings.Split(out, "\n") {
		if strings.HasPrefix(line, "=== RUN   ") {
			cur = strings.TrimSpace(strings.TrimPrefix(line, "=== RUN   "))
			continue
		}
		if strings.HasPrefix(line, "--- ") {
			cur = ""
			continue
		}
		if cur != "" {
			res[cur] += line + "\n"
		}
	}
	return res
}

// judgeReplay decides whether the observed execution reproduces the failed obligation.
func judgeReplay(rf *ReplayFile, o *Obligation, vals map[string]string, out string) {
	rf.Output = truncate(out, 6000)
	if !strings.Contains(out, "GOVC-DONE") && !strings.Contains(out, "GOVC-PANIC") {
		return
	}
	panicked := strings.Contains(out, "GOVC-PANIC")
	if o.Kind == "safety" {
		rf.Reproduced = panicked
		return
	}
	if panicked {
		// a postcondition obligation whose counterexample panics on the real code: still a failing input
		rf.Reproduced = true
		return
	}
	if o.Kind != "post" || o.oracle == "" {
		return
	}
	// evaluate the violated clause on the observed results
	var asserts []string
	for _, mv := range o.model {
		if raw, ok := vals[mv.Term]; ok {
			asserts = append(asserts, "(assert (= "+mv.Term+" "+raw+"))")
		}
	}
	for _, line := range strings.Split(out, "\n") {
		if !strings.HasPrefix(line, "GOVC-RESULT ") {
			continue
		}
		f := strings.SplitN(line, " ", 3)
		i, _ := strconv.Atoi(f[1])
		if i >= len(o.oracleRes) {
			continue
		}
		rv := o.oracleRes[i]
		term, extra, err := observedToSMT(o.sorts, f[2], rv.T)
		if err != nil {
			rf.Output += "\noracle: " + err.Error()
			return
		}
		if extra == "nonnil" {
			asserts = append(asserts, "(assert (not ((_ is iface_nil) "+rv.Term+")))")
		} else {
			asserts = append(asserts, "(assert (= "+rv.Term+" "+term+"))")
		}
	}
	script := strings.Replace(o.oracle, ";;ORACLE-INPUTS", strings.Join(asserts, "\n"), 1)
	dir, _ := os.MkdirTemp("", "govc-oracle-")
	defer os.RemoveAll(dir)
	r := solve(script, dir, "oracle", 20*time.Second, nil, false)
	rf.Output += "\noracle (clause evaluated on the observed results): " + r.answer + " [sat = clause violated by the real execution]"
	rf.Reproduced = r.answer == "sat"
}
