package main

func tryReplay(P *Program, rf *ReplayFile, o *Obligation, vals map[string]string) {}

func runGoTest(repo, fnKey, test string) (string, bool) { return "", false }
