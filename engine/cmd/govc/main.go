package main

import (
	"regexp"
	"flag"
	"fmt"
	"os"
	"path/filepath"
	"sort"
	"strconv"
	"strings"
	"time"
)

func sortStrings(s []string) { sort.Strings(s) }

func usage() {
	fmt.Fprintln(os.Stderr, `usage:
  govc check  --property Cnn [--tier quick|thorough] [--repo /repo] [--verif /verif] [-v]
  govc dump   --func pkg.Recv.Name [--out dir]
  govc list
  govc replay <path>`)
	os.Exit(2)
}

func main() {
	if len(os.Args) < 2 {
		usage()
	}
	switch os.Args[1] {
	case "check":
		os.Exit(cmdCheck(os.Args[2:]))
	case "dump":
		os.Exit(cmdDump(os.Args[2:]))
	case "list":
		os.Exit(cmdList(os.Args[2:]))
	case "replay":
		os.Exit(cmdReplay(os.Args[2:]))
	case "loops":
		os.Exit(cmdLoops(os.Args[2:]))
	default:
		usage()
	}
}

func hasProp(props []string, p string) bool {
	for _, x := range props {
		if x == p {
			return true
		}
	}
	return false
}

func loadAll(repo string) (*Program, error) {
	t0 := time.Now()
	P, err := loadProgram(repo)
	if err != nil {
		return nil, err
	}
	if err := P.loadContracts(); err != nil {
		return nil, err
	}
	P.loadSecs = time.Since(t0).Seconds()
	return P, nil
}

func cmdList(args []string) int {
	fs := flag.NewFlagSet("list", flag.ExitOnError)
	repo := fs.String("repo", "/repo", "repository")
	fs.Parse(args)
	P, err := loadAll(*repo)
	if err != nil {
		fmt.Fprintln(os.Stderr, "engine error:", err)
		return 2
	}
	var keys []string
	for k := range P.contracts {
		keys = append(keys, k)
	}
	sort.Strings(keys)
	for _, k := range keys {
		c := P.contracts[k]
		fmt.Printf("%-50s mode=%s props=%v requires=%d ensures=%d\n", k, c.Mode, c.Props, len(c.Requires), len(c.Ensures))
	}
	for _, l := range P.specs.Lemmas {
		fmt.Printf("lemma %s.%s props=%v\n", l.Pkg, l.Name, l.Props)
	}
	return 0
}

func cmdDump(args []string) int {
	fs := flag.NewFlagSet("dump", flag.ExitOnError)
	repo := fs.String("repo", "/repo", "repository")
	fn := fs.String("func", "", "function key")
	out := fs.String("out", "", "output directory for .smt2 files")
	run := fs.Bool("run", true, "run solvers")
	to := fs.Int("timeout", 20, "seconds per obligation")
	covers := fs.Bool("covers", false, "also check reachability of every return")
	only := fs.String("only", "", "regexp: run only the obligations whose name matches")
	fs.Parse(args)
	coverReturns = *covers
	P, err := loadAll(*repo)
	if err != nil {
		fmt.Fprintln(os.Stderr, "engine error:", err)
		return 2
	}
	var res *FuncResult
	if con := P.contracts[*fn]; con != nil {
		res = P.verifyFunction(con)
	} else {
		for _, l := range P.specs.Lemmas {
			if l.Pkg+"."+l.Name == *fn {
				res = P.verifyLemma(l)
			}
		}
	}
	if res == nil {
		fmt.Fprintln(os.Stderr, "no contract for", *fn)
		return 2
	}
	if res.Err != "" {
		fmt.Println("ENGINE ERROR:", res.Err)
		return 2
	}
	dir := *out
	if dir == "" {
		dir, _ = os.MkdirTemp("", "govc-dump")
		defer os.RemoveAll(dir)
	} else {
		os.MkdirAll(dir, 0o755)
	}
	if *only != "" {
		re := regexp.MustCompile(*only)
		var keep []*Obligation
		for _, o := range res.Obls {
			if re.MatchString(o.Name) {
				o.group = nil
				keep = append(keep, o)
			}
		}
		res.Obls = keep
	}
	if *run {
		dischargeAll(res.Obls, dir, time.Duration(*to)*time.Second, "quick", 5)
	} else {
		for _, o := range res.Obls {
			os.WriteFile(filepath.Join(dir, sanitize(o.Name)+".smt2"), []byte(o.script), 0o644)
		}
	}
	for _, o := range res.Obls {
		fmt.Printf("%-12s %-60s %-8s %-10s %.2fs  %s\n", o.Status, o.Name, o.Answer, o.Solver, o.Secs, o.Clause)
		if o.Status == "failed" && !o.ExpectSat {
			fmt.Println("    ", firstLines(modelSummary(o), 12))
		}
	}
	for _, n := range res.Notes {
		fmt.Println("note:", n)
	}
	return 0
}

func modelSummary(o *Obligation) string {
	vals := parseModel(o.Model)
	var parts []string
	for _, mv := range o.model {
		if v, ok := vals[mv.Term]; ok {
			parts = append(parts, mv.Name+"="+abbrevModel(v))
		}
	}
	if len(parts) == 0 {
		return firstLines(o.Model, 3)
	}
	return strings.Join(parts, " ")
}

// ---- check ---------------------------------------------------------------------------------

type Evidence struct {
	PropertyID  string                 `json:"property_id"`
	Tier        string                 `json:"tier"`
	Seed        int                    `json:"seed"`
	Level       string                 `json:"level"`
	Coverage    map[string]interface{} `json:"coverage"`
	Assumptions []string               `json:"assumptions"`
	WallS       float64                `json:"wall_s"`
	Violations  int                    `json:"violations"`
}

func cmdCheck(args []string) int {
	fs := flag.NewFlagSet("check", flag.ExitOnError)
	repo := fs.String("repo", "/repo", "repository")
	verif := fs.String("verif", "/verif", "verif dir")
	prop := fs.String("property", "", "property id")
	tier := fs.String("tier", "", "quick|thorough")
	verbose := fs.Bool("v", false, "verbose")
	wb := fs.Bool("write-baseline", false, "record the discharged obligation names in /verif/baseline/<property>.json")
	fs.Parse(args)
	writeBaseline = *wb
	if *prop == "" {
		usage()
	}
	if *tier == "" {
		*tier = os.Getenv("VERIF_TIER")
		if *tier == "" {
			*tier = "quick"
		}
	}
	seed := 0
	if s := os.Getenv("VERIF_SEED"); s != "" {
		seed, _ = strconv.Atoi(s)
	}
	t0 := time.Now()
	P, err := loadAll(*repo)
	if err != nil {
		fmt.Fprintln(os.Stderr, "engine error:", err)
		return 2
	}
	return runCheck(P, *verif, *prop, *tier, seed, *verbose, t0)
}

// abbrevModel shortens array-valued model terms for display.
func abbrevModel(v string) string {
	for {
		i := strings.Index(v, "(store ")
		if i < 0 {
			break
		}
		// collapse the whole store-chain into "<array>"
		d, j := 0, i
		for ; j < len(v); j++ {
			if v[j] == '(' {
				d++
			} else if v[j] == ')' {
				d--
				if d == 0 {
					break
				}
			}
		}
		if j >= len(v) {
			break
		}
		v = v[:i] + "<array>" + v[j+1:]
	}
	if len(v) > 300 {
		v = v[:300] + "..."
	}
	return v
}

// cmdLoops prints the loop ordinals of a function with the source line of each loop head.
func cmdLoops(args []string) int {
	fs := flag.NewFlagSet("loops", flag.ExitOnError)
	repo := fs.String("repo", "/repo", "repository")
	fn := fs.String("func", "", "function key")
	fs.Parse(args)
	P, err := loadAll(*repo)
	if err != nil {
		fmt.Fprintln(os.Stderr, "engine error:", err)
		return 2
	}
	f := P.funcs[*fn]
	if f == nil {
		fmt.Fprintln(os.Stderr, "no such function")
		return 2
	}
	g := newGen(P, f, nil, ModeInt)
	fr := g.newFrame(f, 0)
	fr.findLoops()
	type row struct {
		ord  int
		line string
	}
	var rows []row
	for h, li := range fr.loops {
		line := ""
		for _, in := range h.Instrs {
			if in.Pos().IsValid() {
				line = g.posOf(in)
				break
			}
		}
		rows = append(rows, row{li.ord, line + " (" + h.Comment + ")"})
	}
	sort.Slice(rows, func(i, j int) bool { return rows[i].ord < rows[j].ord })
	for _, r := range rows {
		fmt.Printf("loop %d: %s\n", r.ord, r.line)
	}
	return 0
}
