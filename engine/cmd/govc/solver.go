package main

// Solver portfolio: z3 4.8.12, z3 5.1.0 (z3-new), cvc5 1.0 raced per obligation.

import (
	"regexp"
	"bytes"
	"context"
	"fmt"
	"os"
	"os/exec"
	"path/filepath"
	"sort"
	"strings"
	"sync"
	"time"
)

type solverSpec struct {
	name string
	argv func(file string, timeout time.Duration) []string
}

var solvers = []solverSpec{
	{"z3-5.1.0", func(f string, t time.Duration) []string {
		return []string{"z3-new", fmt.Sprintf("-T:%d", int(t.Seconds())+1), f}
	}},
	{"cvc5-1.0.3", func(f string, t time.Duration) []string {
		return []string{"cvc5", "--lang=smt2", fmt.Sprintf("--tlimit=%d", t.Milliseconds()), f}
	}},
	{"z3-4.8.12", func(f string, t time.Duration) []string {
		return []string{"z3", fmt.Sprintf("-T:%d", int(t.Seconds())+1), f}
	}},
	// the same solver with other random seeds: quantifier instantiation order is seed dependent, and an obligation
	// that one seed proves in a second can take another seed minutes
	{"z3-5.1.0/seed1", func(f string, t time.Duration) []string {
		return []string{"z3-new", fmt.Sprintf("-T:%d", int(t.Seconds())+1), "smt.random_seed=1", "sat.random_seed=1", f}
	}},
	{"z3-5.1.0/seed2", func(f string, t time.Duration) []string {
		return []string{"z3-new", fmt.Sprintf("-T:%d", int(t.Seconds())+1), "smt.random_seed=2", "sat.random_seed=2", f}
	}},
}

type solveResult struct {
	answer string // unsat | sat | unknown | timeout | error
	solver string
	secs   float64
	output string
	all    map[string]string
}

func runOne(ctx context.Context, sp solverSpec, file string, timeout time.Duration) (string, string, float64) {
	argv := sp.argv(file, timeout)
	c, cancel := context.WithTimeout(ctx, timeout+2*time.Second)
	defer cancel()
	cmd := exec.CommandContext(c, argv[0], argv[1:]...)
	var out bytes.Buffer
	cmd.Stdout = &out
	cmd.Stderr = &out
	t0 := time.Now()
	_ = cmd.Run()
	secs := time.Since(t0).Seconds()
	text := out.String()
	first := strings.TrimSpace(strings.SplitN(strings.TrimSpace(text), "\n", 2)[0])
	switch first {
	case "unsat", "sat", "unknown":
		return first, text, secs
	}
	if c.Err() != nil || strings.Contains(text, "timeout") || strings.Contains(text, "interrupted") {
		return "timeout", text, secs
	}
	return "error", text, secs
}

// solve: staged portfolio. Stage 1 runs cvc5 alone with a short limit (it decides most obligations
// fastest); stage 2 races all three solvers with the full timeout. With all=true (thorough tier) every
// solver must answer and a sat/unsat disagreement is reported.
func solve(script string, dir string, name string, timeout time.Duration, modelTerms []string, all bool) solveResult {
	file := filepath.Join(dir, sanitize(name)+".smt2")
	body := script
	if len(modelTerms) > 0 {
		body += "(get-value (" + strings.Join(modelTerms, " ") + "))\n"
	}
	if err := os.WriteFile(file, []byte(body), 0o644); err != nil {
		return solveResult{answer: "error", output: err.Error()}
	}
	res := solveResult{answer: "unknown", all: map[string]string{}}
	ctx, cancel := context.WithCancel(context.Background())
	defer cancel()
	type r struct {
		ans, out, solver string
		secs             float64
	}
	ch := make(chan r, len(solvers))
	launch := func(sp solverSpec) {
		go func() {
			a, o, s := runOne(ctx, sp, file, timeout)
			ch <- r{a, o, sp.name, s}
		}()
	}
	// cvc5 decides most obligations at once: it gets a head start of a second, then the others join the race
	launch(solvers[1])
	var early *r
	if !all {
		select {
		case x := <-ch:
			early = &x
		case <-time.After(1200 * time.Millisecond):
		}
		if early != nil && (early.ans == "unsat" || early.ans == "sat") {
			res.all[early.solver] = early.ans
			res.answer, res.solver, res.secs, res.output = early.ans, early.solver, early.secs, early.out
			return res
		}
	}
	for i, sp := range solvers {
		if i != 1 {
			launch(sp)
		}
	}
	if early != nil {
		ch <- *early
	}
	var errs []string
	got := 0
	var grace <-chan time.Time
	for got < len(solvers) {
		var x r
		if grace != nil {
			select {
			case x = <-ch:
			case <-grace:
				// thorough tier: a second, different solver did not answer within the grace period
				cancel()
				got = len(solvers)
				continue
			}
		} else {
			x = <-ch
		}
		got++
		res.all[x.solver] = x.ans
		if x.ans == "error" {
			errs = append(errs, x.solver+": "+firstLines(x.out, 3))
		}
		if (x.ans == "unsat" || x.ans == "sat") && (res.answer != "unsat" && res.answer != "sat" && res.answer != "disagree") {
			res.answer, res.solver, res.secs, res.output = x.ans, x.solver, x.secs, x.out
			if !all {
				cancel()
				break
			}
			// thorough tier: wait for a confirmation by a different solver, but not for ever
			g := timeout / 4
			if g > 6*time.Second {
				g = 6 * time.Second
			}
			grace = time.After(g)
		} else if (x.ans == "unsat" || x.ans == "sat") && res.answer != "disagree" && x.ans != res.answer {
			res.answer = "disagree"
			res.output += "\n--- " + x.solver + " says " + x.ans
		} else if (x.ans == "unsat" || x.ans == "sat") && x.ans == res.answer && solverFamily(x.solver) != solverFamily(res.solver) {
			res.solver += "+" + x.solver
			cancel()
			break
		}
	}
	if res.answer == "unknown" {
		var parts []string
		for k, v := range res.all {
			parts = append(parts, k+"="+v)
		}
		sort.Strings(parts)
		res.output = strings.Join(parts, " ") + "\n" + strings.Join(errs, "\n")
		allTO := true
		for _, v := range res.all {
			if v != "timeout" {
				allTO = false
			}
		}
		if allTO {
			res.answer = "timeout"
		}
		if len(errs) == len(solvers) {
			res.answer = "error"
		}
	}
	return res
}

func solverFamily(name string) string {
	if i := strings.Index(name, "/"); i >= 0 {
		name = name[:i]
	}
	if i := strings.Index(name, "+"); i >= 0 {
		name = name[:i]
	}
	return name
}

func firstLines(s string, n int) string {
	l := strings.Split(strings.TrimSpace(s), "\n")
	if len(l) > n {
		l = l[:n]
	}
	return strings.Join(l, " | ")
}

// dischargeAll runs all obligations with a worker pool.
func dischargeAll(obls []*Obligation, dir string, timeout time.Duration, tier string, workers int) {
	var wg sync.WaitGroup
	sem := make(chan struct{}, workers)
	// grouped queries first: one query for all postconditions at a return
	seen := map[*oblGroup]bool{}
	for _, o := range obls {
		gr := o.group
		if gr == nil || seen[gr] || tier == "thorough" {
			continue
		}
		seen[gr] = true
		wg.Add(1)
		sem <- struct{}{}
		go func(gr *oblGroup) {
			defer wg.Done()
			defer func() { <-sem }()
			r := solve(gr.script, dir, gr.name, timeout, nil, false)
			if r.answer == "unsat" {
				for _, m := range gr.members {
					m.Status, m.Answer, m.Solver, m.Secs = "discharged", "unsat", r.solver+" (grouped)", r.secs/float64(len(gr.members))
				}
			}
		}(gr)
	}
	wg.Wait()
	for _, o := range obls {
		if o.Status == "discharged" {
			continue
		}
		if o.script == "TRIVIAL" || o.script == "" {
			o.Status, o.Answer, o.Solver = "discharged", "unsat", "trivial"
			continue
		}
		wg.Add(1)
		sem <- struct{}{}
		go func(o *Obligation) {
			defer wg.Done()
			defer func() { <-sem }()
			var mt []string
			if !o.ExpectSat {
				for _, mv := range o.model {
					mt = append(mt, mv.Term)
				}
			}
			var r solveResult
			if o.ExpectSat && tier != "thorough" && !strings.HasSuffix(o.Name, "#cover:pre") {
				// vacuity guard of the quick tier: a contradictory path is refuted at once; anything else counts as reachable
				file := filepath.Join(dir, sanitize(o.Name)+".smt2")
				os.WriteFile(file, []byte(o.script), 0o644)
				a, out, secs := runOne(context.Background(), solvers[1], file, 3*time.Second)
				r = solveResult{answer: a, solver: solvers[1].name, secs: secs, output: out}
			} else if o.ExpectSat {
				// reachability queries are satisfiable queries over quantified assumptions: solvers either answer at
				// once or never; a short limit keeps the thorough tier from waiting for them
				r = solve(o.script, dir, o.Name, 10*time.Second, mt, false)
			} else if tier != "thorough" && canCaseSplit(o) {
				// a quantified goal about a slice that grew in the loop: a short whole attempt, then the proof by cases
				// (each case is usually decided in a second or two), and only then the long whole attempt
				short := 12 * time.Second
				if short > timeout {
					short = timeout
				}
				r = solve(o.script, dir, o.Name, short, mt, false)
				if r.answer != "unsat" && r.answer != "sat" {
					if by := caseSplit(o, dir, timeout); by != "" {
						r = solveResult{answer: "unsat", solver: by}
					} else {
						r = solve(o.script, dir, o.Name, timeout, mt, false)
					}
				}
			} else {
				r = solve(o.script, dir, o.Name, timeout, mt, tier == "thorough")
			}
			o.Answer, o.Solver, o.Secs = r.answer, r.solver, r.secs
			if o.ExpectSat {
				switch r.answer {
				case "sat":
					o.Status = "discharged"
				case "unsat":
					o.Status = "failed" // precondition contradictory (cover:pre) or return unreachable (cover:ret)
					o.Model = "cover unsatisfiable: " + firstLines(r.output, 2)
				default:
					// cover undecided: not an alarm (reachability checks are best effort)
					o.Status = "discharged"
					o.Answer = "cover-" + r.answer
				}
				return
			}
			switch r.answer {
			case "unsat":
				o.Status = "discharged"
			case "sat":
				o.Status = "failed"
				o.Model = r.output
			case "disagree", "error":
				o.Status = "engine-error"
				o.Model = r.output
			default:
				o.Status = "failed"
				o.Model = r.output
			}
		}(o)
	}
	wg.Wait()
	// second chance for undecided obligations: run them again, few at a time and with twice the time (a solver that
	// was starved while everything ran in parallel, or an unlucky instantiation order, is not a verdict)
	var again []*Obligation
	for _, o := range obls {
		if !o.ExpectSat && !o.noRetry && o.Status == "failed" && (o.Answer == "timeout" || o.Answer == "unknown") {
			again = append(again, o)
		}
	}
	if len(again) == 0 || len(again) > 12 {
		return
	}
	sem2 := make(chan struct{}, 3)
	for _, o := range again {
		wg.Add(1)
		sem2 <- struct{}{}
		go func(o *Obligation) {
			defer wg.Done()
			defer func() { <-sem2 }()
			if by := caseSplit(o, dir, timeout); by != "" {
				o.Status, o.Answer, o.Solver = "discharged", "unsat", by
				return
			}
			r := solve(o.script, dir, o.Name+"_retry", 2*timeout, nil, false)
			if r.answer == "unsat" {
				o.Status, o.Answer, o.Solver, o.Secs = "discharged", "unsat", r.solver+" (retry)", o.Secs+r.secs
			} else if r.answer == "sat" {
				o.Answer, o.Model = "sat", r.output
			}
		}(o)
	}
	wg.Wait()
}

var reOneIntBinder = regexp.MustCompile(`^\(\((\S+) Int\)\)$`)
var reLoopSlice = regexp.MustCompile(`\(declare-const (lh_\w+) Slice\)`)

// caseSplit: proof by cases for a goal "forall k: Int. body" that no solver decides as a whole: the bound variable
// becomes a constant q and the obligation is shown once under q < len(s) and once under q >= len(s), for a slice s
// that is a loop-head value (the typical split after an append inside the loop). Both queries must be unsat.
func canCaseSplit(o *Obligation) bool {
	return o.prefix != "" && strings.HasPrefix(o.goal, "(forall ((") && reLoopSlice.MatchString(o.prefix)
}

func caseSplit(o *Obligation, dir string, timeout time.Duration) string {
	if os.Getenv("GOVC_DEBUG") != "" {
		fmt.Fprintf(os.Stderr, "caseSplit %s: prefix=%d goal=%.60s\n", o.Name, len(o.prefix), o.goal)
	}
	if o.prefix == "" || !strings.HasPrefix(o.goal, "(forall ((") {
		return ""
	}
	parts := topArgs(o.goal) // [binders, body]
	if len(parts) != 2 {
		return ""
	}
	m := reOneIntBinder.FindStringSubmatch(parts[0])
	if m == nil {
		return ""
	}
	q := m[1]
	body := parts[1]
	if strings.HasPrefix(body, "(! ") {
		a := topArgs(body)
		if len(a) == 0 {
			return ""
		}
		body = a[0]
	}
	cands := reLoopSlice.FindAllStringSubmatch(o.prefix, -1)
	for n, c := range cands {
		if n >= 3 {
			break
		}
		ok := true
		var by string
		for i, side := range []string{"(< " + q + " (sl_len " + c[1] + "))", "(>= " + q + " (sl_len " + c[1] + "))"} {
			// the case condition goes into the quantified goal itself (solvers do better with it there than with a
			// hand-skolemised constant)
			goal := strings.Replace(o.goal, body, "(=> "+side+" "+body+")", 1)
			script := o.prefix + "(assert (and " + o.path + " (not " + goal + ")))\n(check-sat)\n"
			r := solve(script, dir, fmt.Sprintf("%s_case%d_%d", o.Name, n, i), timeout, nil, false)
			if r.answer != "unsat" {
				ok = false
				break
			}
			by = r.solver
		}
		if ok {
			return by + " (by cases on " + q + " < len(" + c[1] + "))"
		}
	}
	return ""
}
