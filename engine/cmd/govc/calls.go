package main

// Calls: builtins, contracts at call sites, interface dispatch, inlining, trusted library specs, defers.

import (
	"fmt"
	"go/types"
	"math/big"
	"sort"
	"strings"

	"golang.org/x/tools/go/ssa"
)

type bigInt = big.Int

var bigZero = big.NewInt(0)
var bigOne = big.NewInt(1)

func isPow2Minus1(k *big.Int) bool {
	n := new(big.Int).Add(k, bigOne)
	return n.Sign() > 0 && new(big.Int).And(n, k).Sign() == 0
}

const maxInlineDepth = 6
const maxInlineInstrs = 400

// ---- purity / effects (syntactic, for loop havoc sets) -------------------------------------

var pureStd = map[string]bool{
	"strings.Compare": true, "bytes.Compare": true, "strings.HasPrefix": true, "strings.HasSuffix": true, "strings.Index": true,
	"strings.IndexRune": true, "strings.IndexAny": true, "strings.IndexByte": true, "strings.TrimSpace": true, "strings.Trim": true,
	"strings.Split": true, "strings.Contains": true, "strings.ContainsRune": true, "strings.ToLower": true, "strings.EqualFold": true,
	"strings.TrimLeft": true, "strings.TrimRight": true, "strings.TrimPrefix": true, "strings.TrimSuffix": true, "strings.Join": true,
	"strings.LastIndex": true, "strings.Repeat": true, "strings.Replace": true, "strings.ReplaceAll": true, "strings.Fields": true,
	"fmt.Errorf": true, "fmt.Sprintf": true, "fmt.Sprint": true, "errors.New": true, "errors.Is": true,
	"strconv.Itoa": true, "strconv.Atoi": true, "strconv.ParseInt": true, "strconv.ParseUint": true, "strconv.ParseFloat": true,
	"strconv.ParseBool": true, "strconv.FormatInt": true, "strconv.FormatUint": true, "strconv.FormatFloat": true, "strconv.Quote": true,
	"unicode/utf8.DecodeRuneInString": true, "unicode/utf8.RuneLen": true, "unicode/utf8.RuneCountInString": true, "unicode/utf8.DecodeRune": true,
	"unicode.IsSpace": true, "unicode.IsDigit": true, "unicode.IsLetter": true, "unicode.IsUpper": true, "unicode.ToLower": true, "unicode.ToUpper": true,
	"math.IsNaN": true, "math.IsInf": true, "math.Floor": true, "math.Trunc": true, "math.Abs": true,
	"reflect.TypeOf": true, "reflect.ValueOf": true, "reflect.DeepEqual": true, "reflect.Zero": true, "reflect.Indirect": true,
	"reflect.(Value).Len": true, "reflect.(Value).Index": true, "reflect.(Value).IsValid": true, "reflect.(Value).IsZero": true, "reflect.(Value).IsNil": true,
	"reflect.(Value).Kind": true, "reflect.(Value).Type": true, "reflect.(Value).Interface": true, "reflect.(Value).Elem": true, "reflect.(Value).Field": true,
	"reflect.(Value).FieldByName": true, "reflect.(Value).NumField": true, "reflect.(Value).Int": true, "reflect.(Value).Uint": true, "reflect.(Value).Float": true,
	"reflect.(Value).String": true, "reflect.(Value).Bool": true, "reflect.(Value).CanInt": true, "reflect.(Value).CanUint": true, "reflect.(Value).CanFloat": true,
	"reflect.(Value).CanAddr": true, "reflect.(Value).CanSet": true, "reflect.(Value).CanInterface": true, "reflect.(Value).MapKeys": true, "reflect.(Value).MapIndex": true,
	"reflect.(Value).Slice": true, "reflect.(Value).Cap": true, "reflect.(Value).MethodByName": true, "reflect.(Value).NumMethod": true, "reflect.(Value).Addr": true,
	"time.(Time).Unix": true,
	"net/url.QueryUnescape": true, "net/url.PathUnescape": true, "net/url.ParseQuery": true,
	"encoding/base64.(*Encoding).DecodeString": true, "encoding/base64.(*Encoding).EncodeToString": true,
	"regexp.MatchString": true, "regexp.MustCompile": true, "regexp.Compile": true,
}

func stdName(fn *ssa.Function) string {
	if fn == nil {
		return ""
	}
	if fn.Pkg != nil {
		if fn.Signature.Recv() != nil {
			return fn.Pkg.Pkg.Path() + "." + "(" + recvString(fn) + ")." + fn.Name()
		}
		return fn.Pkg.Pkg.Path() + "." + fn.Name()
	}
	return fn.String()
}

func recvString(fn *ssa.Function) string {
	rt := fn.Signature.Recv().Type()
	if p, ok := rt.(*types.Pointer); ok {
		if n, ok := p.Elem().(*types.Named); ok {
			return "*" + n.Obj().Name()
		}
	}
	if n, ok := rt.(*types.Named); ok {
		return n.Obj().Name()
	}
	return rt.String()
}

func (g *Gen) isLibFunc(fn *ssa.Function) bool {
	if fn == nil {
		return false
	}
	p := fn.Pkg
	if p == nil && fn.Parent() != nil {
		p = fn.Parent().Pkg
	}
	if p == nil {
		// method of a library type?
		k := funcKey(fn)
		if k == "" {
			return false
		}
		_, ok := g.P.spkgs[strings.SplitN(k, ".", 2)[0]]
		return ok && strings.HasPrefix(fn.String(), "(") && strings.Contains(fn.String(), "github.com/freeconf/yang")
	}
	return strings.HasPrefix(p.Pkg.Path(), "github.com/freeconf/yang")
}

func (g *Gen) callIsPure(c *ssa.CallCommon) bool {
	if b, ok := c.Value.(*ssa.Builtin); ok {
		switch b.Name() {
		case "len", "cap", "min", "max", "real", "imag", "complex", "print", "println", "panic", "recover", "ssa:wrapnilchk", "ssa:deferstack":
			return true
		}
		return false
	}
	if c.IsInvoke() {
		if con := g.ifaceContract(c); con != nil && con.HasAssigns && len(con.Assigns) == 0 {
			return true
		}
		return false
	}
	fn := c.StaticCallee()
	if fn == nil {
		return false
	}
	if pureStd[stdName(fn)] {
		return true
	}
	if con := g.P.contracts[funcKey(fn)]; con != nil && con.HasAssigns && len(con.Assigns) == 0 {
		return true
	}
	return false
}

func (g *Gen) callHeapEffects(c *ssa.CallCommon, li *loopInfo, depth int) {
	if b, ok := c.Value.(*ssa.Builtin); ok {
		switch b.Name() {
		case "append", "copy":
			if sl, ok := c.Args[0].Type().Underlying().(*types.Slice); ok {
				k, _ := g.elemKey(sl.Elem())
				li.heapKey[k] = true
			}
			return
		case "delete", "clear":
			li.heapAll = true
			return
		}
		return
	}
	if c.IsInvoke() {
		if con := g.ifaceContract(c); con != nil && con.HasAssigns {
			if !g.assignKeys(con, nil, li) {
				li.heapAll = true
			}
			return
		}
		li.heapAll = true
		return
	}
	fn := c.StaticCallee()
	if fn == nil {
		li.heapAll = true
		return
	}
	if con := g.P.contracts[funcKey(fn)]; con != nil && con.HasAssigns {
		// assigned locations resolved at execution; conservatively havoc keys of named fields
		if !g.assignKeys(con, fn, li) {
			li.heapAll = true
		}
		return
	}
	if depth < 3 && g.inlinable(fn, nil) {
		for _, b := range fn.Blocks {
			for _, in := range b.Instrs {
				switch x := in.(type) {
				case *ssa.Store:
					if rootAlloc(x.Addr) == nil {
						tmp := &Frame{g: g, fn: fn}
						tmp.storeKeys(x.Addr, li)
					}
				case *ssa.MapUpdate:
					li.heapAll = true
				case *ssa.Call:
					if !g.callIsPure(x.Common()) {
						g.callHeapEffects(x.Common(), li, depth+1)
					}
				case *ssa.Defer, *ssa.Go:
					li.heapAll = true
				}
			}
		}
		return
	}
	li.heapAll = true
}

// markCallKeysUnknown: a non-pure call inside a loop may write the keys of its assigns clause through any object.
func (g *Gen) markCallKeysUnknown(c *ssa.CallCommon, li *loopInfo) {
	tmp := &loopInfo{heapKey: map[string]bool{}, modCell: map[*ssa.Alloc]bool{}}
	g.callHeapEffects(c, tmp, 0)
	for k := range tmp.heapKey {
		li.keyUnknown[k] = true
	}
}

// assignKeys adds the heap keys named by a contract's assigns clause (field selectors / ghost names).
func (g *Gen) assignKeys(con *Contract, fn *ssa.Function, li *loopInfo) bool {
	for _, a := range con.Assigns {
		switch e := a.Expr.(type) {
		case *SIdent:
			if _, ok := g.P.specs.Ghosts[e.Name]; ok {
				g.ghostKeyFor(e.Name)
				li.heapKey["G:"+e.Name] = true
				continue
			}
			return false
		case *SSel:
			if id, ok := e.X.(*SIdent); ok && g.staticTypeOf(id, fn) == nil {
				if k, _ := g.typeFieldKey(e, con.Pkg, nil); k != "" {
					li.heapKey[k] = true
					li.keyUnknown[k] = true
					continue
				}
			}
			// need static type of e.X: resolve through parameter names
			t := g.staticTypeOf(e.X, fn)
			if t == nil {
				return false
			}
			if p, ok := t.Underlying().(*types.Pointer); ok {
				t = p.Elem()
			}
			st, ok := t.Underlying().(*types.Struct)
			if !ok {
				return false
			}
			found := false
			for i := 0; i < st.NumFields(); i++ {
				if st.Field(i).Name() == e.Name {
					k, _ := g.fieldKey(t, i)
					li.heapKey[k] = true
					found = true
				}
			}
			if !found {
				return false
			}
		case *SCall:
			if e.Fun == "elems" && len(e.Args) == 1 {
				t := g.staticTypeOf(e.Args[0], fn)
				if t == nil {
					return false
				}
				if sl, ok := t.Underlying().(*types.Slice); ok {
					k, _ := g.elemKey(sl.Elem())
					li.heapKey[k] = true
					continue
				}
			}
			return false
		default:
			return false
		}
	}
	return true
}

func (g *Gen) staticTypeOf(e SExpr, fn *ssa.Function) types.Type {
	if fn == nil {
		return nil
	}
	switch x := e.(type) {
	case *SIdent:
		for _, p := range fn.Params {
			if p.Name() == x.Name {
				return p.Type()
			}
		}
	case *SSel:
		t := g.staticTypeOf(x.X, fn)
		if t == nil {
			return nil
		}
		if p, ok := t.Underlying().(*types.Pointer); ok {
			t = p.Elem()
		}
		if st, ok := t.Underlying().(*types.Struct); ok {
			for i := 0; i < st.NumFields(); i++ {
				if st.Field(i).Name() == x.Name {
					return st.Field(i).Type()
				}
			}
		}
	}
	return nil
}

// ---- inlining ------------------------------------------------------------------------------

func (g *Gen) inlinable(fn *ssa.Function, fr *Frame) bool {
	if fn == nil || len(fn.Blocks) == 0 {
		return false
	}
	if !g.isLibFunc(fn) {
		return false
	}
	for _, s := range g.stack {
		if s == fn {
			return false
		}
	}
	if len(g.stack) >= maxInlineDepth {
		return false
	}
	n := 0
	for _, b := range fn.Blocks {
		n += len(b.Instrs)
		for _, s := range b.Succs {
			if isBackEdge(b, s) {
				return false
			}
		}
		for _, in := range b.Instrs {
			switch in.(type) {
			case *ssa.Go, *ssa.Select, *ssa.Send:
				return false
			}
		}
	}
	return n <= maxInlineInstrs
}

// inline executes callee symbolically in the caller's state. Returns result value.
func (fr *Frame) inline(st *State, fn *ssa.Function, args []Val, binds []Val, resT types.Type) Val {
	g := fr.g
	g.stack = append(g.stack, fn)
	defer func() { g.stack = g.stack[:len(g.stack)-1] }()
	cf := g.newFrame(fn, fr.depth+1)
	cf.nopanic = fr.nopanic
	for i, p := range fn.Params {
		cf.regs[p] = args[i]
	}
	for i, fv := range fn.FreeVars {
		if i < len(binds) {
			cf.regs[fv] = binds[i]
		}
	}
	sub := &State{cells: st.cells, heap: st.heap, path: st.path}
	cf.run(sub)
	// merge returns back into st
	if len(cf.rets) == 0 {
		st.path = "false"
		return g.zeroValOf(resT)
	}
	var sts []*State
	for _, r := range cf.rets {
		sts = append(sts, r.st)
	}
	var res Val
	if len(cf.rets) == 1 {
		r := cf.rets[0]
		st.cells, st.heap, st.path = r.st.cells, r.st.heap, r.st.path
		res = packVals(r.vals, resT)
	} else {
		nres := len(cf.rets[0].vals)
		merged := make([]Val, nres)
		for i := 0; i < nres; i++ {
			expr := ""
			var t types.Type
			same := true
			for k := len(cf.rets) - 1; k >= 0; k-- {
				rv := cf.rets[k].vals[i]
				t = rv.T
				s := rv.S
				if s == "" && rv.A != nil {
					s = g.escapeAddr(cf.rets[k].st, rv)
				}
				if expr == "" {
					expr = s
				} else {
					if s != expr {
						same = false
					}
					expr = ite(cf.rets[k].st.path, s, expr)
				}
			}
			if same {
				merged[i] = cf.rets[0].vals[i]
			} else {
				merged[i] = Val{T: t, S: g.define("r", g.S.sortOf(t), expr)}
			}
		}
		ms := cf.mergeStates(sts)
		st.cells, st.heap, st.path = ms.cells, ms.heap, ms.path
		res = packVals(merged, resT)
	}
	// drop callee cells
	for _, c := range cf.cells {
		delete(st.cells, c)
	}
	return res
}

func packVals(vals []Val, resT types.Type) Val {
	if tup, ok := resT.(*types.Tuple); ok {
		if tup.Len() == 1 && len(vals) == 1 {
			return vals[0]
		}
		return Val{T: resT, Tup: vals}
	}
	if len(vals) == 1 {
		return vals[0]
	}
	return Val{T: resT, Tup: vals}
}

func (g *Gen) zeroValOf(t types.Type) Val {
	if tup, ok := t.(*types.Tuple); ok {
		var vs []Val
		for i := 0; i < tup.Len(); i++ {
			vs = append(vs, g.zeroValOf(tup.At(i).Type()))
		}
		if len(vs) == 1 {
			return vs[0]
		}
		return Val{T: t, Tup: vs}
	}
	return Val{T: t, S: g.S.zero(t)}
}

// ---- calls ---------------------------------------------------------------------------------

func resultType(c *ssa.CallCommon) types.Type {
	sig := c.Signature()
	r := sig.Results()
	if r.Len() == 1 {
		return r.At(0).Type()
	}
	return r
}

func (fr *Frame) execCall(st *State, c *ssa.CallCommon, site ssa.Value) Val {
	g := fr.g
	resT := resultType(c)
	if b, ok := c.Value.(*ssa.Builtin); ok {
		return fr.execBuiltin(st, b, c, site)
	}
	var args []Val
	for _, a := range c.Args {
		args = append(args, fr.val(a))
	}
	if c.IsInvoke() {
		recv := fr.val(c.Value)
		// "callsite M: expr" clauses also apply to calls of M through an interface (recv = the interface value)
		fr.callSiteChecks(st, c.Method.Name(), true, append([]Val{recv}, args...))
		return fr.execInvoke(st, c, recv, args, resT)
	}
	if fn := c.StaticCallee(); fn != nil {
		var binds []Val
		if mc, ok := c.Value.(*ssa.MakeClosure); ok {
			for _, b := range mc.Bindings {
				binds = append(binds, fr.val(b))
			}
		}
		return fr.callStatic(st, fn, args, binds, resT)
	}
	// dynamic call through a function value
	fv := fr.val(c.Value)
	if fv.Fn != nil {
		return fr.callStatic(st, fv.Fn, args, fv.Bind, resT)
	}
	fr.safety(st, "nilfunc", "(not (= "+fv.S+" 0))", "call of nil function value")
	// a contract on the named function type?
	if n, ok := types.Unalias(c.Value.Type()).(*types.Named); ok && n.Obj().Pkg() != nil {
		if con := g.P.contracts[n.Obj().Pkg().Name()+"."+n.Obj().Name()]; con != nil && con.Iface {
			g.note("calls through values of type " + n.Obj().Name() + " use the functype contract (every function of that type is assumed to satisfy it)")
			return fr.applyFuncTypeContract(st, con, c, args, resT)
		}
	}
	g.note("call through unknown function value havocked in " + fr.fn.String())
	return fr.havocCall(st, args, resT, "dyn")
}

func (fr *Frame) callStatic(st *State, fn *ssa.Function, args []Val, binds []Val, resT types.Type) Val {
	g := fr.g
	key := funcKey(fn)
	fr.callSiteChecks(st, fn.Name(), fn.Signature.Recv() != nil, args)
	if con := g.P.contracts[key]; con != nil && !con.Inline {
		return fr.applyContract(st, con, fn, args, resT)
	}
	if con := g.P.contracts["ext:"+stdName(fn)]; con != nil {
		return fr.applyContract(st, con, fn, args, resT)
	}
	if v, ok := fr.trustedCall(st, fn, args, resT); ok {
		return v
	}
	if g.inlinable(fn, fr) {
		return fr.inline(st, fn, args, binds, resT)
	}
	name := stdName(fn)
	if pureStd[name] {
		g.note("result of " + name + " unconstrained")
		return fr.pureResult(st, fn, resT)
	}
	g.note("call to " + fn.String() + " havocked (no contract, not inlinable)")
	return fr.havocCall(st, args, resT, sanitize(fn.Name()))
}

// callSiteChecks proves the function's "callsite NAME: expr" clauses at a call to NAME. Inside expr, recv is the
// receiver and arg0, arg1, ... are the arguments; locals and parameters of the calling function are visible.
func (fr *Frame) callSiteChecks(st *State, callee string, hasRecv bool, args []Val) {
	if !fr.top || fr.con == nil || len(fr.con.CallSites) == 0 {
		return
	}
	g := fr.g
	for i, cs := range fr.con.CallSites {
		if cs.Callee != callee {
			continue
		}
		if cs.Ord > 0 && fr.callOrdinal(callee) != cs.Ord {
			continue
		}
		bound := map[string]SV{}
		rest := args
		if hasRecv && len(args) > 0 {
			bound["recv"] = goSV(args[0])
			rest = args[1:]
		}
		for k, a := range rest {
			bound[fmt.Sprintf("arg%d", k)] = goSV(a)
		}
		t := fr.evalBool(cs.Clause.Expr, &specCtx{fr: fr, st: st, old: fr.entry, kind: ctxInv, pkg: fr.con.Pkg, bound: bound})
		g.oblige("callsite", fmt.Sprintf("%s.%d", callee, i+1), st.path, t, "at every call of "+callee+": "+cs.Clause.Text)
	}
}

// callOrdinal: the position (1-based, source order) of the call being executed among the calls of the same name
// in the function under verification; 0 when unknown (calls made from inlined code).
func (fr *Frame) callOrdinal(callee string) int {
	if fr.curCall == nil {
		return 0
	}
	if fr.callOrd == nil {
		fr.callOrd = map[ssa.CallInstruction]int{}
		byName := map[string][]ssa.CallInstruction{}
		for _, b := range fr.fn.Blocks {
			for _, in := range b.Instrs {
				ci, ok := in.(ssa.CallInstruction)
				if !ok {
					continue
				}
				c := ci.Common()
				name := ""
				if c.IsInvoke() {
					name = c.Method.Name()
				} else if f := c.StaticCallee(); f != nil {
					name = f.Name()
				}
				if name != "" {
					byName[name] = append(byName[name], ci)
				}
			}
		}
		for _, l := range byName {
			sort.SliceStable(l, func(i, j int) bool { return l[i].Pos() < l[j].Pos() })
			for k, ci := range l {
				fr.callOrd[ci] = k + 1
			}
		}
	}
	return fr.callOrd[fr.curCall]
}

func (fr *Frame) pureResult(st *State, fn *ssa.Function, resT types.Type) Val {
	return fr.g.havocVal("r_"+sanitize(fn.Name()), resT)
}

// havocCall: unknown callee. Results unconstrained; the heap (not ghost state unless the callee may call nodes) is havocked when pointers are passed.
func (fr *Frame) havocCall(st *State, args []Val, resT types.Type, name string) Val {
	g := fr.g
	ptrs := false
	for _, a := range args {
		if hasPointers(a.T) {
			ptrs = true
		}
		if a.A != nil && a.A.cell != nil {
			// pointee may be modified
			v := g.declare("hv", g.S.sortOf(a.A.cell.t))
			g.assume(g.typeRange(v, a.A.cell.t))
			st.cells[a.A.cell] = v
		}
	}
	if ptrs {
		st.heap = g.havocHeap(st.heap, true)
		g.bumpTop(st)
	}
	r := g.havocVal("r_"+name, resT)
	fr.knownRefVal(st, r)
	return r
}

func (fr *Frame) knownRefVal(st *State, v Val) {
	if len(v.Tup) > 0 {
		for _, e := range v.Tup {
			fr.knownRefVal(st, e)
		}
		return
	}
	if v.S != "" && v.T != nil {
		fr.g.knownRef(st, v.S, v.T)
	}
}

func hasPointers(t types.Type) bool {
	if t == nil {
		return false
	}
	switch u := t.Underlying().(type) {
	case *types.Pointer, *types.Map, *types.Chan, *types.Signature, *types.Interface, *types.Slice:
		return true
	case *types.Struct:
		for i := 0; i < u.NumFields(); i++ {
			if hasPointers(u.Field(i).Type()) {
				return true
			}
		}
	case *types.Array:
		return hasPointers(u.Elem())
	}
	return false
}

// applyContract: assert requires, havoc assigns, assume ensures.
func (fr *Frame) applyContract(st *State, con *Contract, fn *ssa.Function, args []Val, resT types.Type) Val {
	g := fr.g
	if con.Trusted {
		g.note("trusted contract: " + con.Key)
	}
	sig := fn.Signature
	pre := st.clone()
	env := &callEnv{names: map[string]Val{}}
	idx := 0
	if sig.Recv() != nil {
		env.names[sig.Recv().Name()] = args[0]
		env.recv = &args[0]
		idx = 1
	}
	for i := 0; i < sig.Params().Len(); i++ {
		env.names[sig.Params().At(i).Name()] = args[idx+i]
	}
	for i, rq := range con.Requires {
		t := fr.evalBool(rq.Expr, &specCtx{fr: fr, st: st, old: pre, kind: ctxCallPre, call: env, pkg: con.Pkg})
		g.oblige("pre", fmt.Sprintf("%s.%d", shortKey(con.Key), i+1), st.path, t, "precondition of "+con.Key+": "+rq.Text)
		g.assumeUnder(st.path, t)
	}
	// recursion: the callee is the function under verification — its measure must have gone down
	if fr.top && fr.con == con {
		if con.Decreases == nil {
			fail("recursive function %s needs a 'decreases' clause", con.Key)
		}
		mCall := fr.evalMath(con.Decreases.Expr, &specCtx{fr: fr, st: st, old: pre, kind: ctxCallPre, call: env, pkg: con.Pkg})
		mEntry := fr.evalMath(con.Decreases.Expr, &specCtx{fr: fr, st: fr.entry, old: fr.entry, kind: ctxPre, pkg: con.Pkg})
		g.oblige("dec", "rec", st.path, and(g.mathBin("<=", g.mathConst(big.NewInt(0)), mCall), g.mathBin("<", mCall, mEntry)),
			"recursive call: the measure "+con.Decreases.Text+" is non-negative and smaller than at entry")
	}
	// havoc
	if !con.HasAssigns {
		st.heap = g.havocHeap(st.heap, true)
		g.bumpTop(st)
		for _, a := range args {
			if a.A != nil && a.A.cell != nil && len(a.A.path) == 0 {
				v := g.declare("hv", g.S.sortOf(a.A.cell.t))
				g.assume(g.typeRange(v, a.A.cell.t))
				st.cells[a.A.cell] = v
			}
		}
	} else {
		// the callee may allocate: its results (and what it stores) may be objects that did not exist before the call
		fr.afterCallAlloc(st, pre, con, resT, env)
		for _, as := range con.Assigns {
			fr.havocLoc(st, pre, as.Expr, env, con.Pkg)
		}
	}
	// results
	res := g.havocVal("r_"+sanitize(fn.Name()), resT)
	fr.knownRefVal(st, res)
	env.results = unpack(res)
	env.resNames = map[string]int{}
	for i := 0; i < sig.Results().Len(); i++ {
		if n := sig.Results().At(i).Name(); n != "" {
			env.resNames[n] = i
		}
	}
	for _, en := range con.Ensures {
		t := fr.evalBool(en.Expr, &specCtx{fr: fr, st: st, old: pre, kind: ctxCallPost, call: env, pkg: con.Pkg})
		g.assumeUnder(st.path, t)
	}
	return res
}

func shortKey(k string) string {
	if i := strings.Index(k, "."); i >= 0 {
		return k[i+1:]
	}
	return k
}

func unpack(v Val) []Val {
	if len(v.Tup) > 0 {
		return v.Tup
	}
	if _, ok := v.T.(*types.Tuple); ok {
		return nil
	}
	return []Val{v}
}

// havocLoc havocs the location denoted by a spec expression (field selector, ghost variable, *p, a[*]).
func (fr *Frame) havocLoc(st *State, pre *State, e SExpr, env *callEnv, pkg string) {
	g := fr.g
	ctx := &specCtx{fr: fr, st: pre, old: pre, kind: ctxCallPre, call: env, pkg: pkg}
	switch x := e.(type) {
	case *SIdent:
		if _, ok := g.P.specs.Ghosts[x.Name]; ok {
			k, srt := g.ghostKeyFor(x.Name)
			st.heap.set(k, g.declare("g_"+x.Name, srt))
			return
		}
		// a parameter that is a pointer: havoc whole pointee
		sv := fr.evalSpec(e, ctx)
		if sv.A != nil || isPtr(sv.T) {
			a := sv.A
			if a == nil {
				a = g.addrOfPtr(Val{T: sv.T, S: sv.Term})
			}
			var t types.Type
			if a.cell != nil && len(a.path) == 0 {
				t = a.cell.t
			} else {
				t = sv.T.Underlying().(*types.Pointer).Elem()
			}
			nv := g.havocVal("hv", t)
			g.store(st, a, nv.S)
			return
		}
		fail("assigns: cannot havoc %s", x.Name)
	case *SSel:
		if k, _ := g.typeFieldKey(x, pkg, env.isName); k != "" {
			// T.f: field f of every (existing) object of type T may change
			nv := g.declare("hk", g.heapSorts[k])
			st.heap.set(k, nv)
			g.heapRefBound(nv, k, st.heap.get(g, g.topKey()))
			return
		}
		base := fr.evalSpec(x.X, ctx)
		a, ft := fr.fieldAddr(base, x.Name)
		nv := g.havocVal("hv", ft)
		g.store(st, a, nv.S)
	case *SUnary:
		if x.Op == "*" {
			fr.havocLoc(st, pre, x.X, env, pkg)
			return
		}
		fail("assigns: unsupported location")
	case *SCall:
		if x.Fun == "elems" && len(x.Args) == 1 {
			// elems(s): the contents of the backing array of slice s
			sv := fr.evalSpec(x.Args[0], ctx)
			sl, ok := sv.T.Underlying().(*types.Slice)
			if !ok {
				fail("assigns: elems() of non-slice")
			}
			key, srt := g.elemKey(sl.Elem())
			h := st.heap.get(g, key)
			na := g.declare("hv", "(Array "+g.idxSort()+" "+g.S.sortOf(sl.Elem())+")")
			st.heap.set(key, g.define("he", srt, "(store "+h+" (sl_ref "+sv.Term+") "+na+")"))
			return
		}
		fail("assigns: unsupported location")
	default:
		fail("assigns: unsupported location expression")
	}
}

func isPtr(t types.Type) bool {
	if t == nil {
		return false
	}
	_, ok := t.Underlying().(*types.Pointer)
	return ok
}

// fieldAddr resolves base.name to an address (base pointer-to-struct or addressable struct).
func (fr *Frame) fieldAddr(base SV, name string) (*Addr, types.Type) {
	g := fr.g
	t := base.T
	var a *Addr
	if p, ok := t.Underlying().(*types.Pointer); ok {
		t = p.Elem()
		if base.A != nil {
			a = base.A
		} else {
			a = &Addr{ref: base.Term, root: t}
		}
	} else if base.A != nil {
		a = base.A
	} else {
		fail("assigns: %s is not addressable", name)
	}
	if _, ok := t.Underlying().(*types.Struct); !ok {
		fail("assigns: %s: not a struct", name)
	}
	obj, index, _ := lookupFieldAnyPkg(t, name)
	if obj == nil {
		fail("assigns: no field %s in %s", name, t)
	}
	_ = g
	cur := t
	var ft types.Type
	for _, fi := range index {
		st := cur.Underlying().(*types.Struct)
		a = a.extend(pathElem{field: fi, cont: cur})
		ft = st.Field(fi).Type()
		cur = ft
	}
	return a, ft
}

func (g *Gen) ghostKeyFor(name string) (string, string) {
	gv := g.P.specs.Ghosts[name]
	srt := g.specSort(gv.T, gv.Pkg)
	return g.ghostKey(name, srt), srt
}

// ---- interface method calls ------------------------------------------------------------------

// ifaceContract finds a contract declared on the interface method being invoked.
func (g *Gen) ifaceContract(c *ssa.CallCommon) *Contract {
	it := c.Value.Type()
	scope := ""
	if g.con != nil {
		scope = g.con.Pkg + ":"
	}
	if n, ok := types.Unalias(it).(*types.Named); ok && n.Obj().Pkg() != nil {
		key := n.Obj().Pkg().Name() + "." + n.Obj().Name() + "." + c.Method.Name()
		if con := g.P.contracts[scope+key]; con != nil && scope != "" {
			return con
		}
		if con := g.P.contracts[key]; con != nil {
			return con
		}
	}
	// embedded interfaces: contract on the interface that declares the method
	if mpkg := c.Method.Pkg(); mpkg != nil {
		if recvT := c.Method.Type().(*types.Signature).Recv(); recvT != nil {
			if rn, ok := types.Unalias(recvT.Type()).(*types.Named); ok {
				key := mpkg.Name() + "." + rn.Obj().Name() + "." + c.Method.Name()
				if con := g.P.contracts[scope+key]; con != nil && scope != "" {
					return con
				}
				if con := g.P.contracts[key]; con != nil {
					return con
				}
			}
		}
	}
	return nil
}

func (fr *Frame) execInvoke(st *State, c *ssa.CallCommon, recv Val, args []Val, resT types.Type) Val {
	g := fr.g
	fr.safety(st, "nil.invoke", "(not ((_ is iface_nil) "+recv.S+"))", "method call on nil interface ("+c.Method.Name()+")")
	it := c.Value.Type()
	// dynamic type fixed by a precondition "requires dyn(p) == T": call the implementation directly
	for _, mv := range g.params {
		if mv.Term == recv.S {
			if kt, ok := g.knownDyn[mv.Name]; ok && fr.top {
				if m := g.P.methodOf(kt, c.Method.Name(), c.Method.Pkg()); m != nil {
					rv := Val{T: kt, S: g.define("rcv", g.S.sortOf(kt), g.S.unbox(kt, recv.S))}
					return fr.callStatic(st, m, append([]Val{rv}, args...), nil, resT)
				}
			}
		}
	}
	if con := g.ifaceContract(c); con != nil {
		return fr.applyIfaceContract(st, con, c, recv, args, resT)
	}
	// dispatch over implementers
	iface := it.Underlying().(*types.Interface)
	var impls []types.Type
	for _, t := range g.P.concrete {
		if types.Implements(t, iface) {
			impls = append(impls, t)
		} else if pt := types.NewPointer(t); types.Implements(pt, iface) {
			impls = append(impls, pt)
		}
	}
	// basic types boxed in interfaces never have methods; so impls is complete for library types
	if len(impls) == 0 || len(impls) > 64 {
		g.note(fmt.Sprintf("invoke %s.%s havocked (%d implementers)", it, c.Method.Name(), len(impls)))
		return fr.havocCall(st, append([]Val{recv}, args...), resT, sanitize(c.Method.Name()))
	}
	sort.Slice(impls, func(i, j int) bool { return typeKey(impls[i]) < typeKey(impls[j]) })
	// dynamic type fixed by a precondition "requires dyn(p) == T": single arm
	for _, mv := range g.params {
		if mv.Term == recv.S {
			if kt, ok := g.knownDyn[mv.Name]; ok && fr.top {
				if m := g.P.methodOf(kt, c.Method.Name(), c.Method.Pkg()); m != nil {
					rv := Val{T: kt, S: g.define("rcv", g.S.sortOf(kt), g.S.unbox(kt, recv.S))}
					return fr.callStatic(st, m, append([]Val{rv}, args...), nil, resT)
				}
			}
		}
	}
	type arm struct {
		cond string
		st   *State
		res  Val
	}
	var arms []arm
	covered := []string{}
	for _, t := range impls {
		m := g.P.methodOf(t, c.Method.Name(), c.Method.Pkg())
		if m == nil {
			continue
		}
		is := g.S.isDyn(t, recv.S)
		cond := g.define("dyn", "Bool", is)
		covered = append(covered, cond)
		sub := st.clone()
		sub.path = g.define("p", "Bool", and(st.path, cond))
		rv := Val{T: t, S: g.define("rcv", g.S.sortOf(t), g.S.unbox(t, recv.S))}
		// method may have pointer receiver while t is value etc.; MethodValue gives proper function for t
		res := fr.callStatic(sub, m, append([]Val{rv}, args...), nil, resT)
		if sub.path == "false" {
			continue
		}
		arms = append(arms, arm{cond: cond, st: sub, res: res})
	}
	// other dynamic types (user implementations): havoc
	other := st.clone()
	other.path = g.define("p", "Bool", and(st.path, not(or(covered...))))
	ores := fr.havocCall(other, append([]Val{recv}, args...), resT, sanitize(c.Method.Name()))
	arms = append(arms, arm{cond: "true", st: other, res: ores})
	var sts []*State
	for _, a := range arms {
		sts = append(sts, a.st)
	}
	ms := fr.mergeStates(sts)
	st.cells, st.heap, st.path = ms.cells, ms.heap, ms.path
	// merge results
	return fr.mergeVals(resT, func(i int) (string, Val) { return arms[i].st.path, arms[i].res }, len(arms))
}

func (fr *Frame) mergeVals(t types.Type, get func(i int) (string, Val), n int) Val {
	g := fr.g
	if tup, ok := t.(*types.Tuple); ok && tup.Len() != 1 {
		var out []Val
		for k := 0; k < tup.Len(); k++ {
			kk := k
			out = append(out, fr.mergeVals(tup.At(k).Type(), func(i int) (string, Val) {
				p, v := get(i)
				return p, v.Tup[kk]
			}, n))
		}
		return Val{T: t, Tup: out}
	}
	if tup, ok := t.(*types.Tuple); ok && tup.Len() == 1 {
		t = tup.At(0).Type()
	}
	expr := ""
	for i := n - 1; i >= 0; i-- {
		p, v := get(i)
		s := v.S
		if expr == "" {
			expr = s
		} else {
			expr = ite(p, s, expr)
		}
	}
	return Val{T: t, S: g.define("mr", g.S.sortOf(t), expr)}
}

func (fr *Frame) applyIfaceContract(st *State, con *Contract, c *ssa.CallCommon, recv Val, args []Val, resT types.Type) Val {
	g := fr.g
	sig := c.Signature()
	pre := st.clone()
	env := &callEnv{names: map[string]Val{}}
	env.names["self"] = recv
	env.recv = &recv
	// parameter names from the contract header: interface Node.Field(r FieldRequest, hnd *ValueHandle) error
	names := headerParamNames(con.Header)
	for i := 0; i < sig.Params().Len(); i++ {
		n := sig.Params().At(i).Name()
		if i < len(names) {
			n = names[i]
		}
		env.names[n] = args[i]
	}
	for i, rq := range con.Requires {
		t := fr.evalBool(rq.Expr, &specCtx{fr: fr, st: st, old: pre, kind: ctxCallPre, call: env, pkg: con.Pkg})
		g.oblige("pre", fmt.Sprintf("%s.%d", shortKey(con.Key), i+1), st.path, t, "precondition of "+con.Key+": "+rq.Text)
		g.assumeUnder(st.path, t)
	}
	if !con.HasAssigns {
		st.heap = g.havocHeap(st.heap, true)
		g.bumpTop(st)
	} else {
		fr.afterCallAlloc(st, pre, con, resT, env)
		for _, as := range con.Assigns {
			fr.havocLoc(st, pre, as.Expr, env, con.Pkg)
		}
	}
	res := g.havocVal("r_"+sanitize(c.Method.Name()), resT)
	fr.knownRefVal(st, res)
	env.results = unpack(res)
	env.resNames = headerResultNames(con.Header)
	for _, en := range con.Ensures {
		t := fr.evalBool(en.Expr, &specCtx{fr: fr, st: st, old: pre, kind: ctxCallPost, call: env, pkg: con.Pkg})
		g.assumeUnder(st.path, t)
	}
	return res
}

func (fr *Frame) applyFuncTypeContract(st *State, con *Contract, c *ssa.CallCommon, args []Val, resT types.Type) Val {
	g := fr.g
	sig := c.Signature()
	pre := st.clone()
	env := &callEnv{names: map[string]Val{}}
	names := headerParamNames(con.Header)
	for i := 0; i < sig.Params().Len() && i < len(args); i++ {
		n := sig.Params().At(i).Name()
		if i < len(names) {
			n = names[i]
		}
		env.names[n] = args[i]
	}
	for i, rq := range con.Requires {
		t := fr.evalBool(rq.Expr, &specCtx{fr: fr, st: st, old: pre, kind: ctxCallPre, call: env, pkg: con.Pkg})
		g.oblige("pre", fmt.Sprintf("%s.%d", shortKey(con.Key), i+1), st.path, t, "precondition of "+con.Key+": "+rq.Text)
		g.assumeUnder(st.path, t)
	}
	if !con.HasAssigns {
		st.heap = g.havocHeap(st.heap, true)
		g.bumpTop(st)
	} else {
		fr.afterCallAlloc(st, pre, con, resT, env)
		for _, as := range con.Assigns {
			fr.havocLoc(st, pre, as.Expr, env, con.Pkg)
		}
	}
	res := g.havocVal("r_"+sanitize(shortKey(con.Key)), resT)
	fr.knownRefVal(st, res)
	env.results = unpack(res)
	env.resNames = map[string]int{}
	for _, en := range con.Ensures {
		t := fr.evalBool(en.Expr, &specCtx{fr: fr, st: st, old: pre, kind: ctxCallPost, call: env, pkg: con.Pkg})
		g.assumeUnder(st.path, t)
	}
	return res
}

// headerResultNames: names of named results in a contract header "...) (child Node, err error)".
func headerResultNames(h string) map[string]int {
	out := map[string]int{}
	h = strings.TrimSpace(h)
	if !strings.HasSuffix(h, ")") {
		return out
	}
	d := 0
	i := len(h) - 1
	for ; i >= 0; i-- {
		if h[i] == ')' {
			d++
		} else if h[i] == '(' {
			d--
			if d == 0 {
				break
			}
		}
	}
	if i <= 0 || !strings.Contains(h[:i], ")") {
		return out // the only parenthesis group is the parameter list
	}
	for k, p := range splitTop(h[i+1 : len(h)-1]) {
		f := strings.Fields(p)
		if len(f) >= 2 {
			out[f[0]] = k
		}
	}
	return out
}

func headerParamNames(h string) []string {
	i := strings.Index(h, "(")
	if i < 0 {
		return nil
	}
	// for "func (recv) name(params)" skip receiver
	if strings.HasPrefix(strings.TrimSpace(h), "func") {
		rest := h[i:]
		if strings.HasPrefix(strings.TrimSpace(h[4:]), "(") {
			j := strings.Index(rest, ")")
			k := strings.Index(rest[j:], "(")
			if k < 0 {
				return nil
			}
			i = i + j + k
		}
	}
	d := 0
	j := i
	for ; j < len(h); j++ {
		if h[j] == '(' {
			d++
		} else if h[j] == ')' {
			d--
			if d == 0 {
				break
			}
		}
	}
	if j >= len(h) {
		return nil
	}
	var out []string
	for _, p := range splitTop(h[i+1 : j]) {
		f := strings.Fields(p)
		if len(f) > 0 {
			out = append(out, f[0])
		}
	}
	return out
}

// ---- builtins --------------------------------------------------------------------------------

func (fr *Frame) execBuiltin(st *State, b *ssa.Builtin, c *ssa.CallCommon, site ssa.Value) Val {
	g := fr.g
	intT := types.Typ[types.Int]
	arg := func(i int) Val { return fr.val(c.Args[i]) }
	fromIdx := func(s string) string { return s } // int is 64-bit: index sort == sort of int
	switch b.Name() {
	case "len":
		a := arg(0)
		switch u := a.T.Underlying().(type) {
		case *types.Slice:
			return Val{T: intT, S: fromIdx("(sl_len " + a.S + ")")}
		case *types.Basic:
			return Val{T: intT, S: fromIdx("(str_len " + a.S + ")")}
		case *types.Array:
			return Val{T: intT, S: g.idxConst(u.Len())}
		case *types.Pointer:
			return Val{T: intT, S: g.idxConst(u.Elem().Underlying().(*types.Array).Len())}
		case *types.Map:
			v := g.havocVal("maplen", intT)
			g.assume(g.intCmp(">=", v.S, g.idxConst(0), intT))
			return v
		}
		return g.havocVal("len", intT)
	case "cap":
		a := arg(0)
		switch u := a.T.Underlying().(type) {
		case *types.Slice:
			return Val{T: intT, S: "(sl_cap " + a.S + ")"}
		case *types.Array:
			return Val{T: intT, S: g.idxConst(u.Len())}
		}
		return g.havocVal("cap", intT)
	case "append":
		return fr.execAppend(st, c)
	case "copy":
		dst := arg(0)
		if sl, ok := dst.T.Underlying().(*types.Slice); ok {
			key, srt := g.elemKey(sl.Elem())
			h := st.heap.get(g, key)
			na := g.declare("cp", "(Array "+g.idxSort()+" "+g.S.sortOf(sl.Elem())+")")
			st.heap.set(key, g.define("he", srt, "(store "+h+" (sl_ref "+dst.S+") "+na+")"))
		}
		n := g.havocVal("copyn", intT)
		g.assume(g.intCmp(">=", n.S, g.idxConst(0), intT))
		return n
	case "delete":
		m := arg(0)
		g.mapDelete(st, m, arg(1))
		return Val{}
	case "panic":
		fr.safety(st, "panic", "false", "explicit panic")
		return Val{}
	case "recover":
		return Val{T: types.NewInterfaceType(nil, nil), S: "iface_nil"}
	case "print", "println":
		return Val{}
	case "ssa:wrapnilchk":
		return arg(0)
	case "ssa:deferstack":
		return Val{T: b.Type(), S: "0"}
	case "min", "max":
		a, bb := arg(0), arg(1)
		op := "<"
		if b.Name() == "max" {
			op = ">"
		}
		if _, _, ok := intInfo(a.T); ok {
			return Val{T: a.T, S: ite(g.intCmp(op, a.S, bb.S, a.T), a.S, bb.S)}
		}
	}
	g.note("builtin " + b.Name() + " havocked")
	if site != nil {
		return g.havocVal("bi", site.Type())
	}
	return Val{}
}

// execAppend models append with Go's aliasing behaviour.
func (fr *Frame) execAppend(st *State, c *ssa.CallCommon) Val {
	g := fr.g
	s := fr.val(c.Args[0])
	add := fr.val(c.Args[1])
	sl := s.T.Underlying().(*types.Slice)
	el := sl.Elem()
	key, srt := g.elemKey(el)
	var n string
	if isString(add.T) {
		n = "(str_len " + add.S + ")"
	} else {
		n = "(sl_len " + add.S + ")"
	}
	newLen := g.define("al", g.idxSort(), g.idxAdd("(sl_len "+s.S+")", n))
	fits := g.define("fits", "Bool", g.idxLe(newLen, "(sl_cap "+s.S+")"))
	h := st.heap.get(g, key)
	// in place: same ref/off, elements [len, newLen) overwritten
	// realloc: fresh ref, off 0, prefix copied
	fresh := g.allocRef(st)
	ncap := g.declare("ncap", g.idxSort())
	g.assume(g.idxLe(newLen, ncap))
	g.assume(g.idxLe(ncap, g.idxConst(1<<40)))
	// a declared constant (not a macro): it appears inside quantifier patterns below
	res := g.declare("app", "Slice")
	g.assume("(= " + res + " " + ite(fits,
		"(mk_slice (sl_ref "+s.S+") (sl_off "+s.S+") "+newLen+" (sl_cap "+s.S+"))",
		"(mk_slice "+fresh+" "+g.idxConst(0)+" "+newLen+" "+ncap+")") + ")")
	// contents of the resulting backing array
	idxS := g.idxSort()
	es := g.S.sortOf(el)
	narr := g.declare("apparr", "(Array "+idxS+" "+es+")")
	oldArr := "(select " + h + " (sl_ref " + s.S + "))"
	k := g.fresh("k")
	inLen := and(g.idxLe(g.idxConst(0), k), g.idxLt(k, "(sl_len "+s.S+")"))
	// prefix preserved (relative to result offset)
	g.assume("(forall ((" + k + " " + idxS + ")) (! (=> " + inLen + " (= (select " + narr + " " + g.idxAdd("(sl_off "+res+")", k) + ") (select " + oldArr + " " + g.idxAdd("(sl_off "+s.S+")", k) + "))) :pattern ((select " + narr + " " + g.idxAdd("(sl_off "+res+")", k) + "))))")
	// in place: everything outside [off+len, off+newLen) unchanged
	k2 := g.fresh("k")
	outside := or(g.idxLt(k2, g.idxAdd("(sl_off "+s.S+")", "(sl_len "+s.S+")")), g.idxLe(g.idxAdd("(sl_off "+s.S+")", newLen), k2))
	g.assume("(=> " + fits + " (forall ((" + k2 + " " + idxS + ")) (! (=> " + outside + " (= (select " + narr + " " + k2 + ") (select " + oldArr + " " + k2 + "))) :pattern ((select " + narr + " " + k2 + ")))))")
	// appended elements
	if !isString(add.T) {
		addArr := "(select " + h + " (sl_ref " + add.S + "))"
		k3 := g.fresh("k")
		inAdd := and(g.idxLe(g.idxConst(0), k3), g.idxLt(k3, n))
		g.assume("(forall ((" + k3 + " " + idxS + ")) (! (=> " + inAdd + " (= (select " + narr + " " + g.idxAdd(g.idxAdd("(sl_off "+res+")", "(sl_len "+s.S+")"), k3) + ") (select " + addArr + " " + g.idxAdd("(sl_off "+add.S+")", k3) + "))) :pattern ((select " + addArr + " " + g.idxAdd("(sl_off "+add.S+")", k3) + "))))")
	}
	st.heap.set(key, g.define("he", srt, "(store "+h+" (sl_ref "+res+") "+narr+")"))
	return Val{T: s.T, S: res}
}

// ---- maps (abstract) ---------------------------------------------------------------------------

func (g *Gen) mapKeys(m Val) (hasK, valK, hasS, valS string, mt *types.Map) {
	mt = m.T.Underlying().(*types.Map)
	ks, vs := g.S.sortOf(mt.Key()), g.S.sortOf(mt.Elem())
	hasS = "(Array Int (Array " + ks + " Bool))"
	valS = "(Array Int (Array " + ks + " " + vs + "))"
	hasK = "MH:" + ks + ":" + vs
	valK = "MV:" + ks + ":" + vs
	g.heapKeySort(hasK, hasS)
	g.heapKeySort(valK, valS)
	return
}

func (g *Gen) mapLookup(st *State, m Val, k Val) (Val, string) {
	hasK, valK, _, _, mt := g.mapKeys(m)
	if isString(mt.Key()) || isIface(mt.Key()) {
		// string / interface keys: structural equality of terms is not Go equality -> abstract
		v := g.havocVal("mv", mt.Elem())
		ok := g.declare("mok", "Bool")
		g.assume(implies(not(ok), "(= "+v.S+" "+g.S.zero(mt.Elem())+")"))
		g.assume(implies("(= "+m.S+" 0)", not(ok)))
		return v, ok
	}
	ks := k.S
	ok := g.define("mok", "Bool", and("(not (= "+m.S+" 0))", "(select (select "+st.heap.get(g, hasK)+" "+m.S+") "+ks+")"))
	v := g.define("mv", g.S.sortOf(mt.Elem()), ite(ok, "(select (select "+st.heap.get(g, valK)+" "+m.S+") "+ks+")", g.S.zero(mt.Elem())))
	g.assumeUnder(st.path, g.typeRange(v, mt.Elem()))
	return Val{T: mt.Elem(), S: v}, ok
}

func (g *Gen) mapUpdate(st *State, m Val, k Val, v Val) {
	hasK, valK, hasS, valS, mt := g.mapKeys(m)
	if isString(mt.Key()) || isIface(mt.Key()) {
		st.heap.set(hasK, g.declare("mh", hasS))
		st.heap.set(valK, g.declare("mvv", valS))
		return
	}
	vs := v.S
	if vs == "" && v.A != nil {
		vs = g.escapeAddr(st, v)
	}
	hh := st.heap.get(g, hasK)
	vv := st.heap.get(g, valK)
	st.heap.set(hasK, g.define("mh", hasS, "(store "+hh+" "+m.S+" (store (select "+hh+" "+m.S+") "+k.S+" true))"))
	st.heap.set(valK, g.define("mvv", valS, "(store "+vv+" "+m.S+" (store (select "+vv+" "+m.S+") "+k.S+" "+vs+"))"))
}

func (g *Gen) mapDelete(st *State, m Val, k Val) {
	hasK, _, hasS, _, mt := g.mapKeys(m)
	if isString(mt.Key()) || isIface(mt.Key()) {
		st.heap.set(hasK, g.declare("mh", hasS))
		return
	}
	hh := st.heap.get(g, hasK)
	st.heap.set(hasK, g.define("mh", hasS, "(store "+hh+" "+m.S+" (store (select "+hh+" "+m.S+") "+k.S+" false))"))
}

func (g *Gen) mapInit(st *State, m Val) {
	hasK, _, hasS, _, mt := g.mapKeys(m)
	hh := st.heap.get(g, hasK)
	ks := g.S.sortOf(mt.Key())
	st.heap.set(hasK, g.define("mh", hasS, "(store "+hh+" "+m.S+" ((as const (Array "+ks+" Bool)) false))"))
}

// ---- defers ------------------------------------------------------------------------------------

func (fr *Frame) execDefer(st *State, x *ssa.Defer) {
	g := fr.g
	c := x.Common()
	var rec *deferRec
	for _, d := range fr.defers {
		if d.site == x {
			rec = d
		}
	}
	if rec == nil {
		g.nf++
		rec = &deferRec{site: x, flag: &Cell{id: g.nf, t: types.Typ[types.Bool], name: "defer$flag"}}
		fr.defers = append(fr.defers, rec)
	}
	for _, a := range c.Args {
		rec.args = append(rec.args, fr.val(a))
	}
	if !c.IsInvoke() {
		if fn := c.StaticCallee(); fn != nil {
			rec.fnVal = Val{Fn: fn}
			if mc, ok := c.Value.(*ssa.MakeClosure); ok {
				for _, b := range mc.Bindings {
					rec.fnVal.Bind = append(rec.fnVal.Bind, fr.val(b))
				}
			}
		} else {
			rec.fnVal = fr.val(c.Value)
		}
	} else {
		fail("deferred interface method call outside subset in %s", fr.fn)
	}
	st.cells[rec.flag] = "true"
}

func (fr *Frame) runDefers(st *State) {
	g := fr.g
	for i := len(fr.defers) - 1; i >= 0; i-- {
		d := fr.defers[i]
		flag, ok := st.cells[d.flag]
		if !ok || flag == "false" {
			continue
		}
		resT := resultType(d.site.Common())
		if flag == "true" {
			if d.fnVal.Fn == nil {
				fail("deferred call through unknown function value in %s", fr.fn)
			}
			fr.callStatic(st, d.fnVal.Fn, d.args, d.fnVal.Bind, resT)
			continue
		}
		yes := st.clone()
		yes.path = g.define("p", "Bool", and(st.path, flag))
		fr.callStatic(yes, d.fnVal.Fn, d.args, d.fnVal.Bind, resT)
		no := st.clone()
		no.path = g.define("p", "Bool", and(st.path, not(flag)))
		ms := fr.mergeStates([]*State{yes, no})
		st.cells, st.heap, st.path = ms.cells, ms.heap, ms.path
	}
	// flags of entry frames that were never set default to false
}

// afterCallAlloc: a contract call with an assigns clause may still allocate. When references can come back (through
// the results or the assigned locations) the objects created by the callee have unknown contents: the heap is
// layered (old objects keep their contents, newer ones are unconstrained). Otherwise only the watermark moves.
func (fr *Frame) afterCallAlloc(st, pre *State, con *Contract, resT types.Type, env *callEnv) {
	g := fr.g
	if con.NoAlloc {
		return // nothing new becomes reachable: the watermark stays, so results are objects that existed before the call
	}
	need := typeHasRef(resT, 0, false)
	for _, en := range con.Ensures {
		if strings.Contains(en.Text, "fresh(") {
			need = true
		}
	}
	for _, as := range con.Assigns {
		if need {
			break
		}
		if t := fr.assignLocType(pre, as.Expr, env, con.Pkg); t == nil || typeHasRef(t, 0, true) {
			need = true
		}
	}
	if need {
		st.heap = g.layerHeap(st.heap)
		return
	}
	if !typeHasRef(resT, 0, true) {
		return // nothing the callee may have allocated can be reached by the caller
	}
	// objects reachable only through interface values the callee returns (errors, boxed values) are not given
	// unknown contents of their own: their fields read as unknown values that refer to older objects
	g.bumpTop(st)
}

// assignLocType: the Go type stored at an assigns location (nil when unknown; ghost variables hold no references).
func (fr *Frame) assignLocType(pre *State, e SExpr, env *callEnv, pkg string) (t types.Type) {
	g := fr.g
	defer func() {
		if r := recover(); r != nil {
			if _, ok := r.(engineError); ok {
				t = nil
				return
			}
			panic(r)
		}
	}()
	ctx := &specCtx{fr: fr, st: pre, old: pre, kind: ctxCallPre, call: env, pkg: pkg, assumed: true}
	switch x := e.(type) {
	case *SIdent:
		if _, ok := g.P.specs.Ghosts[x.Name]; ok {
			return types.Typ[types.Int]
		}
		sv := fr.evalSpec(e, ctx)
		if p, ok := sv.T.Underlying().(*types.Pointer); ok {
			return p.Elem()
		}
		return sv.T
	case *SSel:
		if k, ft := g.typeFieldKey(x, pkg, env.isName); k != "" {
			return ft
		}
		base := fr.evalSpec(x.X, ctx)
		_, ft := fr.fieldAddr(base, x.Name)
		return ft
	case *SUnary:
		if x.Op == "*" {
			return fr.assignLocType(pre, x.X, env, pkg)
		}
	case *SCall:
		if x.Fun == "elems" && len(x.Args) == 1 {
			sv := fr.evalSpec(x.Args[0], ctx)
			if sl, ok := sv.T.Underlying().(*types.Slice); ok {
				return sl.Elem()
			}
		}
	}
	return nil
}

func typeHasRef(t types.Type, depth int, ifaces bool) bool {
	if t == nil || depth > 4 {
		return t != nil
	}
	switch u := t.Underlying().(type) {
	case *types.Pointer, *types.Map, *types.Chan, *types.Slice, *types.Signature:
		return true
	case *types.Interface:
		return ifaces
	case *types.Struct:
		for i := 0; i < u.NumFields(); i++ {
			if typeHasRef(u.Field(i).Type(), depth+1, ifaces) {
				return true
			}
		}
	case *types.Array:
		return typeHasRef(u.Elem(), depth+1, ifaces)
	case *types.Tuple:
		for i := 0; i < u.Len(); i++ {
			if typeHasRef(u.At(i).Type(), depth+1, ifaces) {
				return true
			}
		}
	}
	return false
}
