package main

// Values, addresses, loads/stores, integer/float primitive operations.

import (
	"fmt"
	"go/ast"
	"go/constant"
	"go/types"
	"math"
	"math/big"
	"strings"

	"golang.org/x/tools/go/ssa"
)

type Cell struct {
	id    int
	t     types.Type
	name  string
	alloc *ssa.Alloc
}

type pathElem struct {
	isIndex bool
	field   int
	index   string     // index term (index sort), absolute
	cont    types.Type // type of the container at this step (struct or array type)
	efn     string     // optional: element function; then the read is (efn base off rel)
	off     string
	rel     string
}

type Addr struct {
	cell  *Cell
	ref   string     // heap root reference (Int term)
	root  types.Type // type of the root object
	elems bool       // root is an element array of root-typed elements; path[0] is an index
	path  []pathElem
}

type Val struct {
	T    types.Type
	S    string
	A    *Addr
	Tup  []Val
	Fn   *ssa.Function
	Bind []Val
}

func (g *Gen) idxSort() string {
	if g.mode == ModeBV {
		return "(_ BitVec 64)"
	}
	return "Int"
}

func (g *Gen) mathSort() string {
	if g.mode == ModeBV {
		return "(_ BitVec 128)"
	}
	return "Int"
}

// idxConst builds an index-sort constant.
func (g *Gen) idxConst(v int64) string { return g.S.intConst(v, 64) }

func (g *Gen) idxAdd(a, b string) string {
	if g.mode == ModeBV {
		return "(bvadd " + a + " " + b + ")"
	}
	if b == "0" {
		return a
	}
	if a == "0" {
		return b
	}
	return "(+ " + a + " " + b + ")"
}
func (g *Gen) idxSub(a, b string) string {
	if g.mode == ModeBV {
		return "(bvsub " + a + " " + b + ")"
	}
	if b == "0" {
		return a
	}
	return "(- " + a + " " + b + ")"
}
func (g *Gen) idxLe(a, b string) string {
	if g.mode == ModeBV {
		return "(bvsle " + a + " " + b + ")"
	}
	return "(<= " + a + " " + b + ")"
}
func (g *Gen) idxLt(a, b string) string {
	if g.mode == ModeBV {
		return "(bvslt " + a + " " + b + ")"
	}
	return "(< " + a + " " + b + ")"
}

// toIdx converts a Go integer value of type t to the index sort (int: 64-bit signed).
func (g *Gen) toIdx(v string, t types.Type) string {
	if g.mode == ModeInt {
		return v
	}
	bits, signed, ok := intInfo(t)
	if !ok || bits == 64 {
		return v
	}
	if signed {
		return fmt.Sprintf("((_ sign_extend %d) %s)", 64-bits, v)
	}
	return fmt.Sprintf("((_ zero_extend %d) %s)", 64-bits, v)
}

// ---- math integers (spec level) ----------------------------------------------------------

func (g *Gen) toMath(v string, t types.Type) string {
	if g.mode == ModeInt {
		return v
	}
	bits, signed, ok := intInfo(t)
	if !ok {
		return v
	}
	if signed {
		return fmt.Sprintf("((_ sign_extend %d) %s)", 128-bits, v)
	}
	return fmt.Sprintf("((_ zero_extend %d) %s)", 128-bits, v)
}

func (g *Gen) fromMath(v string, t types.Type) string {
	if g.mode == ModeInt {
		return v
	}
	bits, _, ok := intInfo(t)
	if !ok {
		return v
	}
	return fmt.Sprintf("((_ extract %d 0) %s)", bits-1, v)
}

func (g *Gen) mathConst(b *big.Int) string {
	if g.mode == ModeInt {
		if b.Sign() < 0 {
			return "(- " + new(big.Int).Neg(b).String() + ")"
		}
		return b.String()
	}
	m := new(big.Int).Set(b)
	if m.Sign() < 0 {
		m.Add(m, new(big.Int).Lsh(big.NewInt(1), 128))
	}
	return fmt.Sprintf("#x%032s", m.Text(16))
}

func (g *Gen) mathBin(op, a, b string) string {
	if g.mode == ModeInt {
		switch op {
		case "+", "-", "*":
			return "(" + op + " " + a + " " + b + ")"
		case "/":
			g.needDivFns = true
			return "(go_div " + a + " " + b + ")"
		case "%":
			g.needDivFns = true
			return "(go_rem " + a + " " + b + ")"
		case "<", "<=", ">", ">=":
			return "(" + op + " " + a + " " + b + ")"
		}
		panic("mathBin int: " + op)
	}
	m := map[string]string{"+": "bvadd", "-": "bvsub", "*": "bvmul", "/": "bvsdiv", "%": "bvsrem",
		"<": "bvslt", "<=": "bvsle", ">": "bvsgt", ">=": "bvsge", "&": "bvand", "|": "bvor", "^": "bvxor", "<<": "bvshl", ">>": "bvashr"}
	o, ok := m[op]
	if !ok {
		panic("mathBin bv: " + op)
	}
	return "(" + o + " " + a + " " + b + ")"
}

// typeRange returns an assumption that Int-mode value v lies in the range of Go type t ("true" otherwise).
func (g *Gen) typeRange(v string, t types.Type) string {
	if isString(t) {
		z := g.idxConst(0)
		return and(g.idxLe(z, "(str_len "+v+")"), g.idxLe(z, "(str_off "+v+")"), g.idxLe("(str_len "+v+")", g.idxConst(1<<40)), g.idxLe("(str_off "+v+")", g.idxConst(1<<40)))
	}
	switch u := t.Underlying().(type) {
	case *types.Basic:
		if g.mode != ModeInt {
			return "true"
		}
		bits, signed, ok := intInfo(t)
		if !ok {
			return "true"
		}
		lo, hi := intBounds(bits, signed)
		return fmt.Sprintf("(and (<= %s %s) (<= %s %s))", g.mathConst(lo), v, v, g.mathConst(hi))
	case *types.Slice:
		z := g.idxConst(0)
		return and(g.idxLe(z, "(sl_off "+v+")"), g.idxLe(z, "(sl_len "+v+")"), g.idxLe("(sl_len "+v+")", "(sl_cap "+v+")"),
			"(>= (sl_ref "+v+") 0)", "(=> (= (sl_ref "+v+") 0) (= (sl_cap "+v+") "+z+"))",
			g.idxLe(g.idxAdd("(sl_off "+v+")", "(sl_cap "+v+")"), g.idxConst(1<<40)), g.idxLe("(sl_off "+v+")", g.idxConst(1<<40)))
	case *types.Pointer, *types.Map, *types.Chan, *types.Signature:
		return "(>= " + v + " 0)"
	case *types.Struct:
		var cs []string
		for i := 0; i < u.NumFields(); i++ {
			cs = append(cs, g.typeRange(g.S.structField(t, v, i), u.Field(i).Type()))
		}
		return and(cs...)
	}
	if isString(t) {
		z := g.idxConst(0)
		return and(g.idxLe(z, "(str_len "+v+")"), g.idxLe(z, "(str_off "+v+")"), g.idxLe("(str_len "+v+")", g.idxConst(1<<40)), g.idxLe("(str_off "+v+")", g.idxConst(1<<40)))
	}
	return "true"
}

func intBounds(bits int, signed bool) (lo, hi *big.Int) {
	one := big.NewInt(1)
	if signed {
		hi = new(big.Int).Sub(new(big.Int).Lsh(one, uint(bits-1)), one)
		lo = new(big.Int).Neg(new(big.Int).Lsh(one, uint(bits-1)))
		return
	}
	lo = big.NewInt(0)
	hi = new(big.Int).Sub(new(big.Int).Lsh(one, uint(bits)), one)
	return
}

// ---- constants ---------------------------------------------------------------------------

func (g *Gen) constVal(c *ssa.Const) Val {
	t := c.Type()
	if c.Value == nil {
		return Val{T: t, S: g.S.zero(t)}
	}
	switch {
	case isBool(t):
		if constant.BoolVal(c.Value) {
			return Val{T: t, S: "true"}
		}
		return Val{T: t, S: "false"}
	case isString(t):
		return Val{T: t, S: g.strConst(constant.StringVal(c.Value))}
	}
	if bits, ok := isFloat(t); ok {
		f, _ := constant.Float64Val(constant.ToFloat(c.Value))
		return Val{T: t, S: fpLit(f, bits)}
	}
	if bits, _, ok := intInfo(t); ok {
		iv := constant.ToInt(c.Value)
		bi, _ := new(big.Int).SetString(iv.ExactString(), 10)
		if g.mode == ModeInt {
			return Val{T: t, S: g.mathConst(bi)}
		}
		m := new(big.Int).Set(bi)
		if m.Sign() < 0 {
			m.Add(m, new(big.Int).Lsh(big.NewInt(1), uint(bits)))
		}
		return Val{T: t, S: bvConst(m.Uint64(), bits)}
	}
	return Val{T: t, S: g.S.zero(t)}
}

func fpLit(f float64, bits int) string {
	if bits == 32 {
		b := math.Float32bits(float32(f))
		return fmt.Sprintf("(fp #b%01b #b%08b #b%023b)", b>>31, (b>>23)&0xff, b&0x7fffff)
	}
	b := math.Float64bits(f)
	return fmt.Sprintf("(fp #b%01b #b%011b #b%052b)", b>>63, (b>>52)&0x7ff, b&0xfffffffffffff)
}

func (g *Gen) strConst(s string) string {
	if s == "" {
		return "str_empty"
	}
	if n, ok := g.strConsts[s]; ok {
		return n
	}
	n := g.declare("strc", "Str")
	g.strConsts[s] = n
	var cs []string
	cs = append(cs, "(= (str_len "+n+") "+g.idxConst(int64(len(s)))+")", "(= (str_off "+n+") "+g.idxConst(0)+")")
	if len(s) <= 64 {
		for i := 0; i < len(s); i++ {
			cs = append(cs, fmt.Sprintf("(= (select (str_arr %s) %s) %s)", n, g.idxConst(int64(i)), g.byteConst(s[i])))
		}
	}
	g.assume(and(cs...))
	return n
}

func (g *Gen) strAt(s, i string) string {
	return g.elemAt("(str_arr "+s+")", "(str_off "+s+")", i, g.S.byteSort())
}

// strEqConst: Go equality between symbolic string s and literal lit.
func (g *Gen) strEqConst(s, lit string) string {
	cs := []string{"(= (str_len " + s + ") " + g.idxConst(int64(len(lit))) + ")"}
	for i := 0; i < len(lit); i++ {
		cs = append(cs, fmt.Sprintf("(= %s %s)", g.strAt(s, g.idxConst(int64(i))), g.byteConst(lit[i])))
	}
	return and(cs...)
}

// strEq: Go equality between two symbolic strings (abstracted by an uninterpreted relation with sound partial axioms).
func (g *Gen) strEq(a, b string) string {
	for lit, n := range g.strConsts {
		if n == b {
			return g.strEqConst(a, lit)
		}
		if n == a {
			return g.strEqConst(b, lit)
		}
	}
	if a == "str_empty" {
		return "(= (str_len " + b + ") " + g.idxConst(0) + ")"
	}
	if b == "str_empty" {
		return "(= (str_len " + a + ") " + g.idxConst(0) + ")"
	}
	g.needStrEq = true
	e := g.define("seq", "Bool", "(str_eq "+a+" "+b+")")
	g.assume(and(implies("(= "+a+" "+b+")", e), implies(e, "(= (str_len "+a+") (str_len "+b+"))"),
		"(= "+e+" (str_eq "+b+" "+a+"))"))
	return e
}

// ---- addresses ---------------------------------------------------------------------------

func (a *Addr) extend(pe pathElem) *Addr {
	n := &Addr{cell: a.cell, ref: a.ref, root: a.root, elems: a.elems}
	n.path = append(append([]pathElem(nil), a.path...), pe)
	return n
}

// pathGet applies path to a value term of type t.
func (g *Gen) pathGet(v string, path []pathElem) string {
	for _, pe := range path {
		if pe.isIndex && pe.efn != "" {
			v = "(" + pe.efn + " " + v + " " + pe.off + " " + pe.rel + ")"
		} else if pe.isIndex {
			v = "(select " + v + " " + pe.index + ")"
		} else {
			v = g.S.structField(pe.cont, v, pe.field)
		}
	}
	return v
}

// elemFn returns the name of the element-access function for element sort es, or "" when the
// function under verification has no quantified clauses (plain select is used then).
// (elem_S arr off k) == (select arr (+ off k)); it exists to give quantifiers a stable trigger.
func (g *Gen) elemFn(es string) string {
	if !g.useElemFn {
		return ""
	}
	name := "elem_" + sanitize(es)
	if g.elemFns == nil {
		g.elemFns = map[string]string{}
	}
	g.elemFns[name] = es
	return name
}

func (g *Gen) elemAt(arr, off, k, es string) string {
	if fn := g.elemFn(es); fn != "" {
		return "(" + fn + " " + arr + " " + off + " " + k + ")"
	}
	return "(select " + arr + " " + g.idxAdd(off, k) + ")"
}

// pathSet returns base with the element at path replaced by nv.
func (g *Gen) pathSet(base string, path []pathElem, nv string) string {
	if len(path) == 0 {
		return nv
	}
	pe := path[0]
	if pe.isIndex {
		inner := g.pathSet("(select "+base+" "+pe.index+")", path[1:], nv)
		return "(store " + base + " " + pe.index + " " + inner + ")"
	}
	inner := g.pathSet(g.S.structField(pe.cont, base, pe.field), path[1:], nv)
	return g.S.structUpdate(pe.cont, base, pe.field, inner)
}

func (g *Gen) load(st *State, a *Addr, t types.Type) string {
	if a.cell != nil {
		v, ok := st.cells[a.cell]
		if !ok {
			// not allocated on this path: unconstrained
			v = g.declare("dead", g.S.sortOf(a.cell.t))
			st.cells[a.cell] = v
		}
		return g.pathGet(v, a.path)
	}
	if a.elems {
		key, _ := g.elemKey(a.root)
		arr := "(select " + st.heap.get(g, key) + " " + a.ref + ")"
		return g.pathGet(arr, a.path)
	}
	if _, ok := a.root.Underlying().(*types.Struct); ok {
		if len(a.path) == 0 {
			stt := a.root.Underlying().(*types.Struct)
			var fs []string
			for i := 0; i < stt.NumFields(); i++ {
				key, _ := g.fieldKey(a.root, i)
				fs = append(fs, "(select "+st.heap.get(g, key)+" "+a.ref+")")
			}
			return g.S.mkStruct(a.root, fs)
		}
		key, _ := g.fieldKey(a.root, a.path[0].field)
		v := "(select " + st.heap.get(g, key) + " " + a.ref + ")"
		return g.pathGet(v, a.path[1:])
	}
	key, _ := g.ptrKey(a.root)
	v := "(select " + st.heap.get(g, key) + " " + a.ref + ")"
	return g.pathGet(v, a.path)
}

func (g *Gen) store(st *State, a *Addr, nv string) {
	set := st.heap.set
	if a.cell == nil && g.freshRefs[a.ref] {
		set = st.heap.setFresh
	}
	if a.cell != nil {
		old, ok := st.cells[a.cell]
		if !ok && len(a.path) > 0 {
			old = g.declare("dead", g.S.sortOf(a.cell.t))
		}
		st.cells[a.cell] = g.define("c", g.S.sortOf(a.cell.t), g.pathSet(old, a.path, nv))
		return
	}
	if a.elems {
		key, srt := g.elemKey(a.root)
		h := st.heap.get(g, key)
		arr := "(select " + h + " " + a.ref + ")"
		set(key, g.define("he", srt, "(store "+h+" "+a.ref+" "+g.pathSet(arr, a.path, nv)+")"))
		return
	}
	if stt, ok := a.root.Underlying().(*types.Struct); ok {
		if len(a.path) == 0 {
			for i := 0; i < stt.NumFields(); i++ {
				key, srt := g.fieldKey(a.root, i)
				h := st.heap.get(g, key)
				set(key, g.define("hf", srt, "(store "+h+" "+a.ref+" "+g.S.structField(a.root, nv, i)+")"))
			}
			return
		}
		key, srt := g.fieldKey(a.root, a.path[0].field)
		h := st.heap.get(g, key)
		cur := "(select " + h + " " + a.ref + ")"
		set(key, g.define("hf", srt, "(store "+h+" "+a.ref+" "+g.pathSet(cur, a.path[1:], nv)+")"))
		return
	}
	key, srt := g.ptrKey(a.root)
	h := st.heap.get(g, key)
	cur := "(select " + h + " " + a.ref + ")"
	set(key, g.define("hp", srt, "(store "+h+" "+a.ref+" "+g.pathSet(cur, a.path, nv)+")"))
}

// addrOfPtr turns a pointer value into an address of its pointee.
func (g *Gen) addrOfPtr(v Val) *Addr {
	if v.A != nil {
		return v.A
	}
	pt, ok := v.T.Underlying().(*types.Pointer)
	if !ok {
		panic("addrOfPtr: not a pointer: " + v.T.String())
	}
	el := pt.Elem()
	if at, ok := el.Underlying().(*types.Array); ok {
		return &Addr{ref: v.S, root: at.Elem(), elems: true, path: nil}
	}
	return &Addr{ref: v.S, root: el}
}

// ---- integer operations on Go-typed values ------------------------------------------------

func (g *Gen) intCmp(op string, a, b string, t types.Type) string {
	_, signed, _ := intInfo(t)
	if g.mode == ModeInt {
		switch op {
		case "==":
			return "(= " + a + " " + b + ")"
		case "!=":
			return "(not (= " + a + " " + b + "))"
		}
		return "(" + op + " " + a + " " + b + ")"
	}
	switch op {
	case "==":
		return "(= " + a + " " + b + ")"
	case "!=":
		return "(not (= " + a + " " + b + "))"
	}
	var m map[string]string
	if signed {
		m = map[string]string{"<": "bvslt", "<=": "bvsle", ">": "bvsgt", ">=": "bvsge"}
	} else {
		m = map[string]string{"<": "bvult", "<=": "bvule", ">": "bvugt", ">=": "bvuge"}
	}
	return "(" + m[op] + " " + a + " " + b + ")"
}

func pow2(k int) *big.Int { return new(big.Int).Lsh(big.NewInt(1), uint(k)) }

func isConstTerm(s string) (*big.Int, bool) {
	if b, ok := new(big.Int).SetString(s, 10); ok {
		return b, true
	}
	if strings.HasPrefix(s, "(- ") && strings.HasSuffix(s, ")") {
		if b, ok := new(big.Int).SetString(s[3:len(s)-1], 10); ok {
			return b.Neg(b), true
		}
	}
	return nil, false
}

// globalConstTerm: the value of a package-level table that is initialised by a constant expression and never
// written afterwards ([N]bool / [N]int / [N]string composite literals with constant elements, constant strings).
// Editing an entry of such a table changes the verification conditions.
func (g *Gen) globalConstTerm(gl *ssa.Global) (string, bool) {
	if t, ok := g.globConst[gl]; ok {
		return t, t != ""
	}
	if g.globConst == nil {
		g.globConst = map[*ssa.Global]string{}
	}
	g.globConst[gl] = ""
	expr, info := g.P.globalInit(gl)
	if expr == nil {
		return "", false
	}
	el := gl.Type().(*types.Pointer).Elem()
	if tv, ok := info.Types[expr]; ok && tv.Value != nil && isString(el) {
		t := g.strConst(constant.StringVal(tv.Value))
		g.globConst[gl] = t
		return t, true
	}
	at, isArr := el.Underlying().(*types.Array)
	cl, isLit := expr.(*ast.CompositeLit)
	if !isArr || !isLit {
		return "", false
	}
	term := "((as const " + g.S.sortOf(el) + ") " + g.S.zero(at.Elem()) + ")"
	next := int64(0)
	for _, e := range cl.Elts {
		var val ast.Expr = e
		idx := next
		if kv, ok := e.(*ast.KeyValueExpr); ok {
			ktv, ok := info.Types[kv.Key]
			if !ok || ktv.Value == nil {
				return "", false
			}
			k, exact := constant.Int64Val(constant.ToInt(ktv.Value))
			if !exact {
				return "", false
			}
			idx = k
			val = kv.Value
		}
		vtv, ok := info.Types[val]
		if !ok || vtv.Value == nil {
			return "", false
		}
		var vt string
		switch {
		case isBool(at.Elem()):
			if constant.BoolVal(vtv.Value) {
				vt = "true"
			} else {
				vt = "false"
			}
		case isString(at.Elem()):
			vt = g.strConst(constant.StringVal(vtv.Value))
		default:
			bits, _, isInt := intInfo(at.Elem())
			if !isInt {
				return "", false
			}
			n, _ := constant.Int64Val(constant.ToInt(vtv.Value))
			vt = g.S.intConst(n, bits)
		}
		term = "(store " + term + " " + g.idxConst(idx) + " " + vt + ")"
		next = idx + 1
	}
	name := "gtab_" + sanitize(gl.Pkg.Pkg.Name()+"_"+gl.Name())
	g.emit("(define-fun " + name + " () " + g.S.sortOf(el) + " " + term + ")")
	g.globConst[gl] = name
	g.note("table " + gl.Pkg.Pkg.Name() + "." + gl.Name() + " imported from its constant initialiser (never written after init: checked syntactically)")
	return name, true
}
