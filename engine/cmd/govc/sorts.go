package main

// SMT sorts for Go types, datatypes for structs / interfaces / strings / slices.

import (
	"fmt"
	"go/types"
	"sort"
	"strings"
)

// Mode of integer semantics for one function under contract.
type IntMode int

const (
	ModeBV  IntMode = iota // exact machine semantics: fixed-width bit-vectors
	ModeInt                // checked mathematical integers (+ no-overflow obligations)
)

func (m IntMode) String() string {
	if m == ModeBV {
		return "bv"
	}
	return "int"
}

// Sorts collects every sort / datatype / constructor needed by one script.
type Sorts struct {
	mode IntMode
	// struct datatypes
	structs     map[string]*structInfo // by sort name
	structOrder []string
	// interface constructors
	cons     map[string]*consInfo // by type key
	consList []*consInfo
	// interface-type membership predicates requested: name -> interface
	implPreds map[string]*types.Interface
	implOrder []string
	anon      int
	prog      *Program
	needSolid bool
	needRef   bool
}

type structInfo struct {
	name   string
	t      *types.Struct
	named  types.Type
	fields []string // selector names
	fsorts []string
}

type consInfo struct {
	key  string
	t    types.Type
	name string // constructor
	sel  string // selector
	srt  string
}

func newSorts(mode IntMode, prog *Program) *Sorts {
	return &Sorts{mode: mode, structs: map[string]*structInfo{}, cons: map[string]*consInfo{}, implPreds: map[string]*types.Interface{}, prog: prog}
}

func (s *Sorts) idx() string {
	if s.mode == ModeBV {
		return "(_ BitVec 64)"
	}
	return "Int"
}

func (s *Sorts) byteSort() string {
	if s.mode == ModeBV {
		return "(_ BitVec 8)"
	}
	return "Int"
}

func sanitize(s string) string {
	var b strings.Builder
	for _, r := range s {
		switch {
		case r >= 'a' && r <= 'z', r >= 'A' && r <= 'Z', r >= '0' && r <= '9', r == '_':
			b.WriteRune(r)
		case r == '.' || r == '/':
			b.WriteRune('_')
		case r == '*':
			b.WriteString("ptr_")
		case r == '[':
			b.WriteString("arr_")
		case r == ']':
			b.WriteString("_")
		default:
			b.WriteString("_")
		}
	}
	return b.String()
}

func typeKey(t types.Type) string {
	return types.TypeString(t, func(p *types.Package) string { return p.Name() })
}

func intInfo(t types.Type) (bits int, signed bool, ok bool) {
	b, isb := t.Underlying().(*types.Basic)
	if !isb {
		return 0, false, false
	}
	switch b.Kind() {
	case types.Int8:
		return 8, true, true
	case types.Int16:
		return 16, true, true
	case types.Int32, types.UntypedRune:
		return 32, true, true
	case types.Int64, types.Int, types.UntypedInt:
		return 64, true, true
	case types.Uint8:
		return 8, false, true
	case types.Uint16:
		return 16, false, true
	case types.Uint32:
		return 32, false, true
	case types.Uint64, types.Uint, types.Uintptr:
		return 64, false, true
	}
	return 0, false, false
}

func isFloat(t types.Type) (bits int, ok bool) {
	b, isb := t.Underlying().(*types.Basic)
	if !isb {
		return 0, false
	}
	switch b.Kind() {
	case types.Float32:
		return 32, true
	case types.Float64, types.UntypedFloat:
		return 64, true
	}
	return 0, false
}

func isString(t types.Type) bool {
	b, isb := t.Underlying().(*types.Basic)
	return isb && (b.Kind() == types.String || b.Kind() == types.UntypedString)
}

func isBool(t types.Type) bool {
	b, isb := t.Underlying().(*types.Basic)
	return isb && (b.Kind() == types.Bool || b.Kind() == types.UntypedBool)
}

func isIface(t types.Type) bool {
	_, ok := t.Underlying().(*types.Interface)
	return ok
}

func fpSort(bits int) string {
	if bits == 32 {
		return "(_ FloatingPoint 8 24)"
	}
	return "(_ FloatingPoint 11 53)"
}

// sortOf returns the SMT sort for values of Go type t.
func (s *Sorts) sortOf(t types.Type) string {
	if t == nil {
		return "Int"
	}
	switch u := t.Underlying().(type) {
	case *types.Basic:
		if isBool(t) {
			return "Bool"
		}
		if isString(t) {
			return "Str"
		}
		if bits, ok := isFloat(t); ok {
			return fpSort(bits)
		}
		if bits, _, ok := intInfo(t); ok {
			if s.mode == ModeBV {
				return fmt.Sprintf("(_ BitVec %d)", bits)
			}
			return "Int"
		}
		if u.Kind() == types.UnsafePointer || u.Kind() == types.UntypedNil {
			return "Int"
		}
		return "Int"
	case *types.Pointer, *types.Map, *types.Chan, *types.Signature:
		return "Int"
	case *types.Slice:
		return "Slice"
	case *types.Array:
		return "(Array " + s.idx() + " " + s.sortOf(u.Elem()) + ")"
	case *types.Interface:
		return "Iface"
	case *types.Struct:
		return s.structSort(t, u)
	case *types.Tuple:
		return "Int"
	}
	return "Int"
}

func (s *Sorts) structSort(t types.Type, u *types.Struct) string {
	var name string
	if n, ok := t.(*types.Named); ok {
		name = "S_" + sanitize(typeKey(n))
	} else if a, ok := t.(*types.Alias); ok {
		return s.structSort(types.Unalias(a), u)
	} else {
		// anonymous struct: key by its string
		k := "S_anon_" + sanitize(typeKey(u))
		name = k
	}
	if _, ok := s.structs[name]; ok {
		return name
	}
	si := &structInfo{name: name, t: u, named: t}
	s.structs[name] = si // register first (recursion)
	s.structOrder = append(s.structOrder, name)
	for i := 0; i < u.NumFields(); i++ {
		f := u.Field(i)
		si.fields = append(si.fields, fmt.Sprintf("%s__%s", name, sanitize(f.Name())))
		si.fsorts = append(si.fsorts, s.sortOf(f.Type()))
	}
	if u.NumFields() == 0 {
		si.fields = append(si.fields, name+"__empty")
		si.fsorts = append(si.fsorts, "Bool")
	}
	return name
}

func (s *Sorts) structInfoOf(t types.Type) *structInfo {
	u, ok := t.Underlying().(*types.Struct)
	if !ok {
		return nil
	}
	n := s.structSort(t, u)
	return s.structs[n]
}

// mkStruct builds a datatype value from field terms.
func (s *Sorts) mkStruct(t types.Type, fields []string) string {
	si := s.structInfoOf(t)
	if len(fields) == 0 {
		return "(mk_" + si.name + " true)"
	}
	return "(mk_" + si.name + " " + strings.Join(fields, " ") + ")"
}

func (s *Sorts) structField(t types.Type, v string, i int) string {
	si := s.structInfoOf(t)
	return "(" + si.fields[i] + " " + v + ")"
}

func (s *Sorts) structUpdate(t types.Type, v string, i int, nv string) string {
	si := s.structInfoOf(t)
	parts := make([]string, len(si.fields))
	for k := range si.fields {
		if k == i {
			parts[k] = nv
		} else {
			parts[k] = "(" + si.fields[k] + " " + v + ")"
		}
	}
	return "(mk_" + si.name + " " + strings.Join(parts, " ") + ")"
}

// ---- interfaces -------------------------------------------------------------------------

// consFor returns the Iface constructor for concrete (non-interface) type t.
func (s *Sorts) consFor(t types.Type) *consInfo {
	t = types.Unalias(t)
	k := typeKey(t)
	if c, ok := s.cons[k]; ok {
		return c
	}
	n := sanitize(k)
	c := &consInfo{key: k, t: t, name: "box_" + n, sel: "unbox_" + n, srt: s.sortOf(t)}
	s.cons[k] = c
	s.consList = append(s.consList, c)
	return c
}

func (s *Sorts) box(t types.Type, v string) string {
	c := s.consFor(t)
	return "(" + c.name + " " + v + ")"
}
func (s *Sorts) unbox(t types.Type, v string) string {
	c := s.consFor(t)
	return "(" + c.sel + " " + v + ")"
}
func (s *Sorts) isDyn(t types.Type, v string) string {
	c := s.consFor(t)
	return "((_ is " + c.name + ") " + v + ")"
}

// implements returns a predicate application: dynamic type of v implements interface it.
func (s *Sorts) implements(it types.Type, v string) string {
	iface := it.Underlying().(*types.Interface)
	if iface.NumMethods() == 0 {
		return "(not ((_ is iface_nil) " + v + "))"
	}
	name := "impl_" + sanitize(typeKey(it))
	if _, ok := s.implPreds[name]; !ok {
		s.implPreds[name] = iface
		s.implOrder = append(s.implOrder, name)
	}
	return "(" + name + " " + v + ")"
}

// ---- zero values ------------------------------------------------------------------------

func (s *Sorts) zero(t types.Type) string {
	switch u := t.Underlying().(type) {
	case *types.Basic:
		if isBool(t) {
			return "false"
		}
		if isString(t) {
			return "str_empty"
		}
		if bits, ok := isFloat(t); ok {
			if bits == 32 {
				return "(_ +zero 8 24)"
			}
			return "(_ +zero 11 53)"
		}
		if bits, _, ok := intInfo(t); ok {
			return s.intConst(0, bits)
		}
		return "0"
	case *types.Pointer, *types.Map, *types.Chan, *types.Signature:
		return "0"
	case *types.Slice:
		return "slice_nil"
	case *types.Array:
		return "((as const " + s.sortOf(t) + ") " + s.zero(u.Elem()) + ")"
	case *types.Interface:
		return "iface_nil"
	case *types.Struct:
		var fs []string
		for i := 0; i < u.NumFields(); i++ {
			fs = append(fs, s.zero(u.Field(i).Type()))
		}
		return s.mkStruct(t, fs)
	}
	return "0"
}

func (s *Sorts) intConst(v int64, bits int) string {
	if s.mode == ModeInt {
		if v < 0 {
			return fmt.Sprintf("(- %d)", -v)
		}
		return fmt.Sprintf("%d", v)
	}
	return bvConst(uint64(v), bits)
}

func bvConst(v uint64, bits int) string {
	if bits < 64 {
		v &= (uint64(1) << uint(bits)) - 1
	}
	if bits%4 == 0 {
		return fmt.Sprintf("#x%0*x", bits/4, v)
	}
	return fmt.Sprintf("(_ bv%d %d)", v, bits)
}

// ---- prelude ----------------------------------------------------------------------------

// prelude emits all datatype declarations. Must be called after all terms were generated.
func (s *Sorts) prelude() string {
	var b strings.Builder
	// force sorts of constructor payloads (may add structs)
	for i := 0; i < len(s.consList); i++ {
		_ = s.consList[i].srt
	}
	names := []string{"Str", "Slice", "Iface"}
	names = append(names, s.structOrder...)
	b.WriteString("(declare-datatypes (")
	for _, n := range names {
		fmt.Fprintf(&b, "(%s 0) ", n)
	}
	b.WriteString(") (\n")
	ix := s.idx()
	fmt.Fprintf(&b, " ((mk_str (str_arr (Array %s %s)) (str_off %s) (str_len %s)))\n", ix, s.byteSort(), ix, ix)
	fmt.Fprintf(&b, " ((mk_slice (sl_ref Int) (sl_off %s) (sl_len %s) (sl_cap %s)))\n", ix, ix, ix)
	b.WriteString(" ((iface_nil) (box_other (other_tid Int) (other_val Int))")
	for _, c := range s.consList {
		fmt.Fprintf(&b, "\n  (%s (%s %s))", c.name, c.sel, c.srt)
	}
	b.WriteString(")\n")
	for _, n := range s.structOrder {
		si := s.structs[n]
		fmt.Fprintf(&b, " ((mk_%s", n)
		for i := range si.fields {
			fmt.Fprintf(&b, " (%s %s)", si.fields[i], si.fsorts[i])
		}
		b.WriteString("))\n")
	}
	b.WriteString("))\n")
	z := s.intConst(0, 64)
	b.WriteString("(declare-const str_empty Str)\n(assert (= (str_len str_empty) " + z + "))\n")
	b.WriteString("(define-fun slice_nil () Slice (mk_slice 0 " + z + " " + z + " " + z + "))\n")
	// iface_solid: the interface value is not nil and does not hold a nil pointer
	if s.needSolid {
		b.WriteString("(define-fun iface_solid ((v Iface)) Bool (and (not ((_ is iface_nil) v))")
		for _, c := range s.consList {
			if _, ok := c.t.Underlying().(*types.Pointer); ok {
				fmt.Fprintf(&b, " (=> ((_ is %s) v) (not (= (%s v) 0)))", c.name, c.sel)
			}
		}
		b.WriteString("))\n")
	}
	// iface_ref: the reference held by an interface value (0 when it holds no pointer or slice)
	if s.needRef {
		b.WriteString("(define-fun iface_ref ((v Iface)) Int ")
		n := 0
		for _, c := range s.consList {
			switch c.t.Underlying().(type) {
			case *types.Pointer, *types.Map, *types.Chan:
				fmt.Fprintf(&b, "(ite ((_ is %s) v) (%s v) ", c.name, c.sel)
				n++
			case *types.Slice:
				fmt.Fprintf(&b, "(ite ((_ is %s) v) (sl_ref (%s v)) ", c.name, c.sel)
				n++
			}
		}
		b.WriteString("0" + strings.Repeat(")", n) + ")\n")
	}
	// implements predicates
	sort.Strings(s.implOrder)
	for _, name := range s.implOrder {
		iface := s.implPreds[name]
		fmt.Fprintf(&b, "(declare-fun %s_other (Int) Bool)\n", name)
		fmt.Fprintf(&b, "(define-fun %s ((v Iface)) Bool (or (and ((_ is box_other) v) (%s_other (other_tid v)))", name, name)
		for _, c := range s.consList {
			if types.Implements(c.t, iface) {
				fmt.Fprintf(&b, " ((_ is %s) v)", c.name)
			}
		}
		b.WriteString("))\n")
	}
	return b.String()
}
