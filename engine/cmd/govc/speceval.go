package main

// Evaluation of contract expressions to SMT terms in a symbolic state.

import (
	"fmt"
	"go/constant"
	"go/types"
	"math/big"
	"regexp"
	"strconv"
	"strings"

	"golang.org/x/tools/go/ssa"
)

type svKind int

const (
	svMath svKind = iota
	svBool
	svGo
)

type SV struct {
	Term  string
	K     svKind
	T     types.Type // for svGo
	A     *Addr
	Nil   bool // untyped nil literal
	Lit   string
	IsLit bool
}

type ctxKind int

const (
	ctxPre      ctxKind = iota // requires of the function being verified (entry state)
	ctxPost                    // ensures of the function being verified
	ctxInv                     // loop invariant / assert inside the function
	ctxCallPre                 // callee requires at a call site
	ctxCallPost                // callee ensures at a call site
	ctxPure                    // body of a pure function / lemma / axiom
)

type callEnv struct {
	names    map[string]Val
	recv     *Val
	results  []Val
	resNames map[string]int
}

func (e *callEnv) isName(n string) bool {
	if e == nil {
		return false
	}
	_, ok := e.names[n]
	return ok
}

// isLocalName: n is a parameter (or the receiver) of the function under verification.
func (fr *Frame) isLocalName(n string) bool {
	if fr.fn == nil {
		return false
	}
	for _, p := range fr.fn.Params {
		if p.Name() == n {
			return true
		}
	}
	return false
}

type specCtx struct {
	fr      *Frame
	st      *State
	old     *State
	kind    ctxKind
	call    *callEnv
	pkg     string
	bound   map[string]SV
	results []Val
	inOld   bool
	trig    *[]string // candidate quantifier triggers collected while evaluating a quantifier body
	assumed bool      // the formula is being assumed, not proved: no well-definedness obligations are generated
	guard   string    // condition under which the sub-expression being evaluated matters (short-circuit operators)
}

func (c *specCtx) under(cond string) *specCtx {
	n := *c
	n.guard = and(c.guard, cond)
	return &n
}

func (c *specCtx) oblPath() string {
	if c.guard == "" {
		return c.st.path
	}
	return and(c.st.path, c.guard)
}

func (c *specCtx) addTrigger(t string) {
	if c.trig != nil && strings.HasPrefix(t, "(elem_") {
		*c.trig = append(*c.trig, t)
	}
}

func (c *specCtx) withBound(name string, v SV) *specCtx {
	n := *c
	n.bound = map[string]SV{}
	for k, x := range c.bound {
		n.bound[k] = x
	}
	n.bound[name] = v
	return &n
}

func (fr *Frame) evalBool(e SExpr, ctx *specCtx) string {
	v := fr.evalSpec(e, ctx)
	if v.K != svBool {
		if v.K == svGo && isBool(v.T) {
			return v.Term
		}
		fail("spec: expected boolean expression, got %v (%s)", v.K, v.Term)
	}
	return v.Term
}

func (fr *Frame) evalMath(e SExpr, ctx *specCtx) string {
	v := fr.evalSpec(e, ctx)
	return fr.g.asMath(v)
}

func (g *Gen) asMath(v SV) string {
	if v.K == svMath {
		return v.Term
	}
	if v.K == svGo {
		if _, _, ok := intInfo(v.T); ok {
			return g.toMath(v.Term, v.T)
		}
	}
	fail("spec: expected integer expression, got %s", v.Term)
	return ""
}

func isIntLike(v SV) bool {
	if v.K == svMath {
		return true
	}
	if v.K == svGo {
		_, _, ok := intInfo(v.T)
		return ok
	}
	return false
}

func goSV(v Val) SV {
	if isBool(v.T) {
		return SV{Term: v.S, K: svBool, T: v.T}
	}
	return SV{Term: v.S, K: svGo, T: v.T, A: v.A}
}

// pkgOf returns the types.Package used for name resolution in this context.
func (fr *Frame) pkgFor(ctx *specCtx) *types.Package {
	if ctx.pkg != "" {
		if p := fr.g.P.tpkgs[ctx.pkg]; p != nil {
			return p
		}
	}
	if fr.fn != nil && fr.fn.Pkg != nil {
		return fr.fn.Pkg.Pkg
	}
	if fr.fn != nil && fr.fn.Parent() != nil && fr.fn.Parent().Pkg != nil {
		return fr.fn.Parent().Pkg.Pkg
	}
	return nil
}

func (g *Gen) resolveType(t *SType, pkgName string) types.Type {
	switch t.Kind {
	case "ptr":
		return types.NewPointer(g.resolveType(t.Elem, pkgName))
	case "slice":
		return types.NewSlice(g.resolveType(t.Elem, pkgName))
	case "iface":
		return types.NewInterfaceType(nil, nil)
	case "array":
		var n int64
		fmt.Sscan(t.Len, &n)
		return types.NewArray(g.resolveType(t.Elem, pkgName), n)
	}
	if t.Pkg != "" {
		if p := g.P.tpkgs[t.Pkg]; p != nil {
			if o := p.Scope().Lookup(t.Name); o != nil {
				return o.Type()
			}
		}
		// imported std packages
		for _, tp := range g.P.tpkgs {
			for _, imp := range tp.Imports() {
				if imp.Name() == t.Pkg {
					if o := imp.Scope().Lookup(t.Name); o != nil {
						return o.Type()
					}
				}
			}
		}
		fail("spec: unknown type %s.%s", t.Pkg, t.Name)
	}
	if o := types.Universe.Lookup(t.Name); o != nil {
		if tn, ok := o.(*types.TypeName); ok {
			return tn.Type()
		}
	}
	if p := g.P.tpkgs[pkgName]; p != nil {
		if o := p.Scope().Lookup(t.Name); o != nil {
			if tn, ok := o.(*types.TypeName); ok {
				return tn.Type()
			}
		}
	}
	fail("spec: unknown type %s (package %s)", t.Name, pkgName)
	return nil
}

// specSort: sort of a spec-level type; "int" means mathematical integer.
func (g *Gen) specSort(t *SType, pkg string) string {
	if t.Kind == "name" && t.Pkg == "" && t.Name == "int" {
		return g.mathSort()
	}
	if t.Kind == "name" && t.Pkg == "" && t.Name == "bool" {
		return "Bool"
	}
	return g.S.sortOf(g.resolveType(t, pkg))
}

func (g *Gen) specSV(term string, t *SType, pkg string) SV {
	if t.Kind == "name" && t.Pkg == "" && t.Name == "int" {
		return SV{Term: term, K: svMath}
	}
	if t.Kind == "name" && t.Pkg == "" && t.Name == "bool" {
		return SV{Term: term, K: svBool, T: types.Typ[types.Bool]}
	}
	return SV{Term: term, K: svGo, T: g.resolveType(t, pkg)}
}

// convert an SV to the sort required for a spec-typed slot
func (g *Gen) coerce(v SV, t *SType, pkg string) string {
	if t.Kind == "name" && t.Pkg == "" && t.Name == "int" {
		return g.asMath(v)
	}
	if v.Nil {
		return g.S.zero(g.resolveType(t, pkg))
	}
	if v.K == svMath {
		// math value passed for a Go integer type
		return g.fromMath(v.Term, g.resolveType(t, pkg))
	}
	if v.T != nil && !isIface(v.T) && v.K != svMath {
		if tt := g.resolveType(t, pkg); isIface(tt) {
			return g.S.box(v.T, v.Term)
		}
	}
	return v.Term
}

func (fr *Frame) evalSpec(e SExpr, ctx *specCtx) SV {
	g := fr.g
	switch x := e.(type) {
	case *SBool:
		if x.Val {
			return SV{Term: "true", K: svBool}
		}
		return SV{Term: "false", K: svBool}
	case *SInt:
		b, ok := new(big.Int).SetString(x.Val, 0)
		if !ok {
			fail("spec: bad integer literal %s", x.Val)
		}
		return SV{Term: g.mathConst(b), K: svMath}
	case *SStr:
		return SV{Term: g.strConst(x.Val), K: svGo, T: types.Typ[types.String], Lit: x.Val, IsLit: true}
	case *SNil:
		return SV{Term: "0", K: svGo, Nil: true}
	case *SOld:
		if ctx.old == nil {
			fail("spec: old() not available here")
		}
		n := *ctx
		n.st = ctx.old
		n.inOld = true
		return fr.evalSpec(x.X, &n)
	case *SIdent:
		return fr.evalIdent(x.Name, ctx)
	case *SUnary:
		switch x.Op {
		case "()":
			return fr.evalSpec(x.X, ctx)
		case "!":
			return SV{Term: not(fr.evalBool(x.X, ctx)), K: svBool}
		case "-":
			v := fr.evalSpec(x.X, ctx)
			if v.K == svGo {
				if _, ok := isFloat(v.T); ok {
					return SV{Term: "(fp.neg " + v.Term + ")", K: svGo, T: v.T}
				}
			}
			return SV{Term: g.mathNeg(g.asMath(v)), K: svMath}
		case "*":
			v := fr.evalSpec(x.X, ctx)
			pt, ok := v.T.Underlying().(*types.Pointer)
			if !ok {
				fail("spec: * of non-pointer")
			}
			a := v.A
			if a == nil {
				a = g.addrOfPtr(Val{T: v.T, S: v.Term})
			}
			return goSV(Val{T: pt.Elem(), S: g.load(ctx.st, a, pt.Elem())})
		}
		fail("spec: unsupported unary %s", x.Op)
	case *SBinary:
		return fr.evalBinary(x, ctx)
	case *SCond:
		c := fr.evalBool(x.C, ctx)
		a, b := fr.evalSpec(x.A, ctx.under(c)), fr.evalSpec(x.B, ctx.under(not(c)))
		if isIntLike(a) && isIntLike(b) {
			return SV{Term: ite(c, g.asMath(a), g.asMath(b)), K: svMath}
		}
		if a.Nil {
			a.Term = g.S.zero(b.T)
			a.T = b.T
		}
		if b.Nil {
			b.Term = g.S.zero(a.T)
			b.T = a.T
		}
		if a.T != nil && b.T != nil && g.S.sortOf(a.T) != g.S.sortOf(b.T) {
			// branches of different Go types: box both into interface values
			any := types.NewInterfaceType(nil, nil)
			at, bt := a.Term, b.Term
			if !isIface(a.T) {
				at = g.S.box(a.T, a.Term)
			}
			if !isIface(b.T) {
				bt = g.S.box(b.T, b.Term)
			}
			return SV{Term: ite(c, at, bt), K: svGo, T: any}
		}
		return SV{Term: ite(c, a.Term, b.Term), K: a.K, T: a.T}
	case *SQuant:
		cc := *ctx
		var trig []string
		cc.trig = &trig
		c := &cc
		var binders []string
		var qnames []string
		for _, v := range x.Vars {
			t := v.T
			if t == nil {
				t = &SType{Kind: "name", Name: "int"}
			}
			name := g.fresh("q_" + v.Name)
			qnames = append(qnames, name)
			binders = append(binders, "("+name+" "+g.specSort(t, fr.ctxPkg(ctx))+")")
			c = c.withBound(v.Name, g.specSV(name, t, fr.ctxPkg(ctx)))
		}
		body := func() string {
			g.noHoist++
			defer func() { g.noHoist-- }()
			return fr.evalBool(x.Body, c)
		}()
		q := "exists"
		if x.Forall {
			q = "forall"
		}
		// explicit triggers: element accesses mentioning the bound variables
		pats := ""
		seenT := map[string]bool{}
		if len(qnames) == 1 {
			for _, t := range trig {
				if strings.Contains(t, qnames[0]) && !seenT[t] && !nestedQuantVar(t, qnames[0]) && g.goodPatternDeep(t, 0) {
					seenT[t] = true
					pats += " :pattern (" + t + ")"
				}
			}
		}
		if ctx.trig != nil {
			*ctx.trig = append(*ctx.trig, trig...)
		}
		if pats != "" {
			return SV{Term: "(" + q + " (" + strings.Join(binders, " ") + ") (! " + body + pats + "))", K: svBool}
		}
		return SV{Term: "(" + q + " (" + strings.Join(binders, " ") + ") " + body + ")", K: svBool}
	case *SDynEq:
		v := fr.evalSpec(x.X, ctx)
		if !isIface(v.T) {
			fail("spec: dyn() of non-interface value")
		}
		var t string
		if x.T.Kind == "name" && x.T.Name == "nil" {
			t = "((_ is iface_nil) " + v.Term + ")"
		} else {
			tt := g.resolveType(x.T, fr.ctxPkg(ctx))
			if isIface(tt) {
				t = g.S.implements(tt, v.Term)
			} else {
				t = g.S.isDyn(tt, v.Term)
			}
		}
		if x.Neg {
			t = not(t)
		}
		return SV{Term: t, K: svBool}
	case *SAssert:
		v := fr.evalSpec(x.X, ctx)
		tt := g.resolveType(x.T, fr.ctxPkg(ctx))
		if isIface(tt) {
			return SV{Term: v.Term, K: svGo, T: tt}
		}
		return goSV(Val{T: tt, S: g.S.unbox(tt, v.Term)})
	case *SSel:
		return fr.evalSel(x, ctx)
	case *SIndex:
		base := fr.evalSpec(x.X, ctx)
		i := fr.evalSpec(x.I, ctx)
		var idx string
		if i.K == svGo && i.T != nil && is64(i.T) {
			idx = i.Term
		} else {
			idx = g.mathToIdx(g.asMath(i))
		}
		switch u := base.T.Underlying().(type) {
		case *types.Slice:
			key, _ := g.elemKey(u.Elem())
			t := g.elemAt("(select "+ctx.st.heap.get(g, key)+" (sl_ref "+base.Term+"))", "(sl_off "+base.Term+")", idx, g.S.sortOf(u.Elem()))
			ctx.addTrigger(t)
			return goSV(Val{T: u.Elem(), S: t})
		case *types.Array:
			return goSV(Val{T: u.Elem(), S: "(select " + base.Term + " " + idx + ")"})
		case *types.Basic:
			if isString(base.T) {
				t := g.strAt(base.Term, idx)
				ctx.addTrigger(t)
				return goSV(Val{T: types.Typ[types.Uint8], S: t})
			}
		case *types.Pointer:
			if at, ok := u.Elem().Underlying().(*types.Array); ok {
				a := base.A
				if a == nil {
					a = g.addrOfPtr(Val{T: base.T, S: base.Term})
				}
				var na *Addr
				if a.elems && len(a.path) == 0 {
					na = &Addr{ref: a.ref, root: a.root, elems: true, path: []pathElem{{isIndex: true, index: idx}}}
				} else {
					na = a.extend(pathElem{isIndex: true, index: idx, cont: u.Elem()})
				}
				return goSV(Val{T: at.Elem(), S: g.load(ctx.st, na, at.Elem())})
			}
		}
		fail("spec: cannot index %s", base.T)
	case *SSlice:
		base := fr.evalSpec(x.X, ctx)
		if isString(base.T) {
			lo := g.idxConst(0)
			hi := "(str_len " + base.Term + ")"
			if x.Lo != nil {
				lo = g.mathToIdx(fr.evalMath(x.Lo, ctx))
			}
			if x.Hi != nil {
				hi = g.mathToIdx(fr.evalMath(x.Hi, ctx))
			}
			return goSV(Val{T: base.T, S: "(mk_str (str_arr " + base.Term + ") " + g.idxAdd("(str_off "+base.Term+")", lo) + " " + g.idxSub(hi, lo) + ")"})
		}
		fail("spec: slicing only supported on strings")
	case *SCall:
		return fr.evalCall(x, ctx)
	}
	fail("spec: unsupported expression %T", e)
	return SV{}
}

// nestedQuantVar: the trigger mentions a variable bound by a quantifier nested inside the one binding
// name (fresh numbers grow inwards) -> unusable as a trigger of the outer quantifier.
var reQVar = regexp.MustCompile(`q_\w+?_(\d+)`)

func nestedQuantVar(t, name string) bool {
	own := 0
	if m := reQVar.FindStringSubmatch(name); m != nil {
		own, _ = strconv.Atoi(m[1])
	}
	for _, m := range reQVar.FindAllStringSubmatch(t, -1) {
		n, _ := strconv.Atoi(m[1])
		if n > own {
			return true
		}
	}
	return false
}

func (fr *Frame) ctxPkg(ctx *specCtx) string {
	if ctx.pkg != "" {
		return ctx.pkg
	}
	if p := fr.pkgFor(ctx); p != nil {
		return p.Name()
	}
	return ""
}

func (g *Gen) mathToIdx(m string) string {
	if g.mode == ModeInt {
		return m
	}
	return "((_ extract 63 0) " + m + ")"
}

func (g *Gen) idxToMath(i string) string {
	if g.mode == ModeInt {
		return i
	}
	return "((_ sign_extend 64) " + i + ")"
}

func (fr *Frame) evalIdent(name string, ctx *specCtx) SV {
	g := fr.g
	if v, ok := ctx.bound[name]; ok {
		return v
	}
	// call-site environments
	if ctx.call != nil {
		if ctx.kind == ctxCallPost {
			if name == "result" && len(ctx.call.results) >= 1 {
				return goSV(ctx.call.results[0])
			}
			if strings.HasPrefix(name, "result") {
				var i int
				if _, err := fmt.Sscanf(name, "result%d", &i); err == nil && i < len(ctx.call.results) {
					return goSV(ctx.call.results[i])
				}
			}
			if i, ok := ctx.call.resNames[name]; ok && i < len(ctx.call.results) {
				return goSV(ctx.call.results[i])
			}
		}
		if v, ok := ctx.call.names[name]; ok {
			return fr.valSV(v, ctx)
		}
		return fr.evalGlobalIdent(name, ctx)
	}
	// function under verification
	if ctx.kind == ctxPost {
		if name == "result" && len(ctx.results) >= 1 {
			return goSV(ctx.results[0])
		}
		if strings.HasPrefix(name, "result") {
			var i int
			if _, err := fmt.Sscanf(name, "result%d", &i); err == nil && i < len(ctx.results) {
				return goSV(ctx.results[i])
			}
		}
		if fr.fn != nil {
			res := fr.fn.Signature.Results()
			for i := 0; i < res.Len(); i++ {
				if res.At(i).Name() == name && i < len(ctx.results) {
					return goSV(ctx.results[i])
				}
			}
		}
	}
	if fr.fn != nil {
		// parameters: entry values in requires/ensures/old, current cell in invariants
		for i, p := range fr.fn.Params {
			if p.Name() == name {
				if ctx.kind == ctxInv && !ctx.inOld {
					if as := fr.byName[name]; len(as) > 0 {
						if c := fr.cells[as[0]]; c != nil {
							if v, ok := ctx.st.cells[c]; ok {
								return goSV(Val{T: c.t, S: v})
							}
						}
					}
				}
				return fr.valSV(fr.params[i], ctx)
			}
		}
		for i, fv := range fr.fn.FreeVars {
			if fv.Name() == name && i < len(fr.freeVars) {
				b := fr.freeVars[i]
				// free vars are pointers to the captured variable
				if b.A != nil {
					el := fv.Type().(*types.Pointer).Elem()
					return goSV(Val{T: el, S: g.load(ctx.st, b.A, el)})
				}
			}
		}
		// locals by name (name$k selects the k-th declaration)
		base, k := name, 1
		if i := strings.LastIndex(name, "$"); i > 0 {
			if _, err := fmt.Sscanf(name[i+1:], "%d", &k); err == nil {
				base = name[:i]
			}
		}
		if as := fr.byName[base]; len(as) >= k {
			a := as[k-1]
			if c := fr.cells[a]; c != nil {
				if v, ok := ctx.st.cells[c]; ok {
					if fv, isFn := fr.fnCells()[c]; isFn {
						return SV{Term: "1", K: svGo, T: fv.T}
					}
					return goSV(Val{T: c.t, S: v, A: nil})
				}
			}
			if rv, ok := fr.regs[a]; ok && rv.S != "" {
				// heap-allocated local: value is the pointee
				el := a.Type().(*types.Pointer).Elem()
				return goSV(Val{T: el, S: g.load(ctx.st, g.addrOfPtr(rv), el)})
			}
			// not allocated on this path (declared in a loop body or a branch not taken): unconstrained
			el := a.Type().(*types.Pointer).Elem()
			if fr.deadVals == nil {
				fr.deadVals = map[*ssa.Alloc]Val{}
			}
			dv, ok := fr.deadVals[a]
			if !ok {
				nh := g.noHoist
				g.noHoist = 0 // a fixed unknown: declared at top level even when met under a binder
				dv = g.havocVal("dead_"+sanitize(name), el)
				g.noHoist = nh
				fr.deadVals[a] = dv
			}
			return goSV(dv)
		}
	}
	return fr.evalGlobalIdent(name, ctx)
}

func (fr *Frame) valSV(v Val, ctx *specCtx) SV {
	if v.Fn != nil && v.S == "" {
		return SV{Term: "1", K: svGo, T: v.T}
	}
	return goSV(v)
}

func (fr *Frame) evalGlobalIdent(name string, ctx *specCtx) SV {
	g := fr.g
	if _, ok := g.P.specs.Ghosts[name]; ok {
		k, _ := g.ghostKeyFor(name)
		gv := g.P.specs.Ghosts[name]
		return g.specSV(ctx.st.heap.get(g, k), gv.T, gv.Pkg)
	}
	pkg := fr.pkgFor(ctx)
	if pkg != nil {
		if o := pkg.Scope().Lookup(name); o != nil {
			return fr.objSV(o, ctx)
		}
	}
	fail("spec: unknown identifier %q in %s", name, g.fnKey)
	return SV{}
}

func (fr *Frame) objSV(o types.Object, ctx *specCtx) SV {
	g := fr.g
	switch c := o.(type) {
	case *types.Const:
		return g.constSV(c.Val(), c.Type())
	case *types.Var:
		// package-level variable
		sp := g.P.spkgs[o.Pkg().Name()]
		if sp != nil {
			if gl, ok := sp.Members[o.Name()].(*ssa.Global); ok {
				if ct, isConst := g.globalConstTerm(gl); isConst {
					return goSV(Val{T: o.Type(), S: ct})
				}
				a := g.globalAddr(gl)
				return goSV(Val{T: o.Type(), S: g.load(ctx.st, a, o.Type())})
			}
		}
	}
	fail("spec: cannot use %s here", o.Name())
	return SV{}
}

func (g *Gen) constSV(v constant.Value, t types.Type) SV {
	switch v.Kind() {
	case constant.Bool:
		if constant.BoolVal(v) {
			return SV{Term: "true", K: svBool}
		}
		return SV{Term: "false", K: svBool}
	case constant.String:
		return SV{Term: g.strConst(constant.StringVal(v)), K: svGo, T: types.Typ[types.String], Lit: constant.StringVal(v), IsLit: true}
	case constant.Int:
		b, _ := new(big.Int).SetString(v.ExactString(), 10)
		if _, _, ok := intInfo(t); ok && !isUntyped(t) {
			// typed constant (e.g. a Format value): keep Go type so == with Go values works; math promotion is automatic
			bits, _, _ := intInfo(t)
			if g.mode == ModeInt {
				return SV{Term: g.mathConst(b), K: svGo, T: t}
			}
			m := new(big.Int).Set(b)
			if m.Sign() < 0 {
				m.Add(m, new(big.Int).Lsh(big.NewInt(1), uint(bits)))
			}
			return SV{Term: bvConst(m.Uint64(), bits), K: svGo, T: t}
		}
		return SV{Term: g.mathConst(b), K: svMath}
	case constant.Float:
		f, _ := constant.Float64Val(v)
		return SV{Term: fpLit(f, 64), K: svGo, T: types.Typ[types.Float64]}
	}
	fail("spec: unsupported constant kind")
	return SV{}
}

func isUntyped(t types.Type) bool {
	b, ok := t.(*types.Basic)
	return ok && b.Info()&types.IsUntyped != 0
}

func (fr *Frame) evalSel(x *SSel, ctx *specCtx) SV {
	g := fr.g
	// qualified identifier pkg.Name ?
	if id, ok := x.X.(*SIdent); ok {
		if _, bound := ctx.bound[id.Name]; !bound && !fr.isValueName(id.Name, ctx) {
			if p := g.lookupPkg(id.Name, fr.pkgFor(ctx)); p != nil {
				if o := p.Scope().Lookup(x.Name); o != nil {
					return fr.objSV(o, ctx)
				}
				fail("spec: %s.%s not found", id.Name, x.Name)
			}
		}
	}
	base := fr.evalSpec(x.X, ctx)
	if base.K != svGo {
		fail("spec: selector on non-Go value")
	}
	t := base.T
	obj, index, _ := types.LookupFieldOrMethod(t, true, fr.pkgFor(ctx), x.Name)
	if obj == nil {
		// try without package restriction (unexported fields of other packages)
		obj, index, _ = lookupFieldAnyPkg(t, x.Name)
	}
	fld, ok := obj.(*types.Var)
	if !ok || !fld.IsField() {
		fail("spec: %s has no field %s", t, x.Name)
	}
	cur := base
	for _, fi := range index {
		ct := cur.T
		if p, ok := ct.Underlying().(*types.Pointer); ok {
			// heap read
			el := p.Elem()
			a := cur.A
			if a == nil {
				a = &Addr{ref: cur.Term, root: el}
			}
			st := el.Underlying().(*types.Struct)
			ft := st.Field(fi).Type()
			na := a.extend(pathElem{field: fi, cont: el})
			cur = goSV(Val{T: ft, S: g.load(ctx.st, na, ft)})
			continue
		}
		st, ok := ct.Underlying().(*types.Struct)
		if !ok {
			fail("spec: selector on non-struct %s", ct)
		}
		ft := st.Field(fi).Type()
		if cur.A != nil {
			na := cur.A.extend(pathElem{field: fi, cont: ct})
			cur = goSV(Val{T: ft, S: g.load(ctx.st, na, ft)})
			cur.A = nil
			continue
		}
		cur = goSV(Val{T: ft, S: g.S.structField(ct, cur.Term, fi)})
	}
	return cur
}

// typeFieldKey: for an assigns location "T.f" where T names a struct type of the package (not a variable), the heap
// key of field f of every T object; "" otherwise.
func (g *Gen) typeFieldKey(e SExpr, pkgName string, locals func(string) bool) (string, types.Type) {
	x, ok := e.(*SSel)
	if !ok {
		return "", nil
	}
	id, ok := x.X.(*SIdent)
	if !ok || (locals != nil && locals(id.Name)) {
		return "", nil
	}
	p := g.P.tpkgs[pkgName]
	if p == nil {
		return "", nil
	}
	tn, ok := p.Scope().Lookup(id.Name).(*types.TypeName)
	if !ok {
		return "", nil
	}
	st, ok := tn.Type().Underlying().(*types.Struct)
	if !ok {
		return "", nil
	}
	for i := 0; i < st.NumFields(); i++ {
		if st.Field(i).Name() == x.Name {
			k, _ := g.fieldKey(tn.Type(), i)
			return k, st.Field(i).Type()
		}
	}
	return "", nil
}

// refTermOf: the reference a pointer / slice value holds.
func refTermOf(a SV) string {
	if a.T != nil {
		if _, ok := a.T.Underlying().(*types.Slice); ok {
			return "(sl_ref " + a.Term + ")"
		}
	}
	return a.Term
}

func lookupFieldAnyPkg(t types.Type, name string) (types.Object, []int, bool) {
	if p, ok := t.Underlying().(*types.Pointer); ok {
		t = p.Elem()
	}
	st, ok := t.Underlying().(*types.Struct)
	if !ok {
		return nil, nil, false
	}
	for i := 0; i < st.NumFields(); i++ {
		if st.Field(i).Name() == name {
			return st.Field(i), []int{i}, false
		}
	}
	for i := 0; i < st.NumFields(); i++ {
		if st.Field(i).Embedded() {
			if o, idx, _ := lookupFieldAnyPkg(st.Field(i).Type(), name); o != nil {
				return o, append([]int{i}, idx...), false
			}
		}
	}
	return nil, nil, false
}

func (fr *Frame) isValueName(name string, ctx *specCtx) bool {
	if ctx.call != nil {
		_, ok := ctx.call.names[name]
		return ok
	}
	if fr.fn != nil {
		for _, p := range fr.fn.Params {
			if p.Name() == name {
				return true
			}
		}
		if len(fr.byName[name]) > 0 {
			return true
		}
	}
	return false
}

func (g *Gen) lookupPkg(name string, from *types.Package) *types.Package {
	if p := g.P.tpkgs[name]; p != nil {
		return p
	}
	if from != nil {
		for _, imp := range from.Imports() {
			if imp.Name() == name {
				return imp
			}
		}
	}
	for _, tp := range g.P.tpkgs {
		for _, imp := range tp.Imports() {
			if imp.Name() == name {
				return imp
			}
		}
	}
	return nil
}

func (fr *Frame) evalBinary(x *SBinary, ctx *specCtx) SV {
	g := fr.g
	switch x.Op {
	case "&&":
		l := fr.evalBool(x.X, ctx)
		return SV{Term: and(l, fr.evalBool(x.Y, ctx.under(l))), K: svBool}
	case "||":
		l := fr.evalBool(x.X, ctx)
		return SV{Term: or(l, fr.evalBool(x.Y, ctx.under(not(l)))), K: svBool}
	case "==>":
		l := fr.evalBool(x.X, ctx)
		return SV{Term: implies(l, fr.evalBool(x.Y, ctx.under(l))), K: svBool}
	case "<==>":
		return SV{Term: "(= " + fr.evalBool(x.X, ctx) + " " + fr.evalBool(x.Y, ctx) + ")", K: svBool}
	}
	a, b := fr.evalSpec(x.X, ctx), fr.evalSpec(x.Y, ctx)
	switch x.Op {
	case "===":
		// identical values (for strings: the very same string value, stronger than Go's ==)
		if isIntLike(a) && isIntLike(b) {
			return SV{Term: "(= " + g.asMath(a) + " " + g.asMath(b) + ")", K: svBool}
		}
		return SV{Term: "(= " + a.Term + " " + b.Term + ")", K: svBool}
	case "==", "!=":
		t := fr.specEq(a, b, ctx)
		if x.Op == "!=" {
			t = not(t)
		}
		return SV{Term: t, K: svBool}
	case "<", "<=", ">", ">=":
		if a.K == svGo && b.K == svGo {
			if _, ok := isFloat(a.T); ok {
				m := map[string]string{"<": "fp.lt", "<=": "fp.leq", ">": "fp.gt", ">=": "fp.geq"}
				return SV{Term: "(" + m[x.Op] + " " + a.Term + " " + b.Term + ")", K: svBool}
			}
		}
		return SV{Term: g.mathBin(x.Op, g.asMath(a), g.asMath(b)), K: svBool}
	case "+", "-", "*", "/", "%":
		if a.K == svGo && b.K == svGo {
			if _, ok := isFloat(a.T); ok {
				m := map[string]string{"+": "fp.add RNE", "-": "fp.sub RNE", "*": "fp.mul RNE", "/": "fp.div RNE"}
				return SV{Term: "(" + m[x.Op] + " " + a.Term + " " + b.Term + ")", K: svGo, T: a.T}
			}
		}
		return SV{Term: g.mathBin(x.Op, g.asMath(a), g.asMath(b)), K: svMath}
	case "&":
		if k, ok := isMathConst(g, g.asMath(b)); ok && k >= 0 && isPow2Minus1(big.NewInt(k)) {
			if g.mode == ModeInt {
				return SV{Term: "(mod " + g.asMath(a) + " " + fmt.Sprint(k+1) + ")", K: svMath}
			}
			return SV{Term: g.mathBin("&", g.asMath(a), g.asMath(b)), K: svMath}
		}
		fail("spec: & needs a constant mask of the form 2^k-1")
	case ">>":
		if k, ok := isMathConst(g, g.asMath(b)); ok && k >= 0 && k < 63 {
			if g.mode == ModeInt {
				return SV{Term: "(div " + g.asMath(a) + " " + pow2(int(k)).String() + ")", K: svMath}
			}
			return SV{Term: g.mathBin(">>", g.asMath(a), g.asMath(b)), K: svMath}
		}
		fail("spec: >> needs a constant shift")
	case "<<":
		// spec shifts: only by constants
		if k, ok := isMathConst(g, g.asMath(b)); ok {
			return SV{Term: g.mathBin("*", g.asMath(a), g.mathConst(pow2(int(k)))), K: svMath}
		}
		fail("spec: << needs a constant shift")
	}
	fail("spec: unsupported operator %s", x.Op)
	return SV{}
}

func isMathConst(g *Gen, t string) (int64, bool) {
	if g.mode == ModeInt {
		if b, ok := isConstTerm(t); ok {
			return b.Int64(), true
		}
		return 0, false
	}
	if strings.HasPrefix(t, "#x") && len(t) == 34 {
		b, ok := new(big.Int).SetString(t[2:], 16)
		if ok && b.IsInt64() {
			return b.Int64(), true
		}
	}
	return 0, false
}

func (fr *Frame) specEq(a, b SV, ctx *specCtx) string {
	g := fr.g
	if a.Nil && b.Nil {
		return "true"
	}
	if a.Nil {
		a, b = b, a
	}
	if b.Nil {
		switch a.T.Underlying().(type) {
		case *types.Interface:
			return "((_ is iface_nil) " + a.Term + ")"
		case *types.Slice:
			return "(= (sl_ref " + a.Term + ") 0)"
		}
		if a.A != nil && a.Term == "" {
			return "false"
		}
		return "(= " + a.Term + " 0)"
	}
	if isIntLike(a) && isIntLike(b) {
		return "(= " + g.asMath(a) + " " + g.asMath(b) + ")"
	}
	if a.K == svBool || b.K == svBool {
		return "(= " + a.Term + " " + b.Term + ")"
	}
	if isString(a.T) && isString(b.T) {
		if b.IsLit {
			return g.strEqConst(a.Term, b.Lit)
		}
		if a.IsLit {
			return g.strEqConst(b.Term, a.Lit)
		}
		return g.strEq(a.Term, b.Term)
	}
	if _, ok := isFloat(a.T); ok {
		return "(fp.eq " + a.Term + " " + b.Term + ")"
	}
	if isIface(a.T) != isIface(b.T) {
		if isIface(a.T) {
			return "(= " + a.Term + " " + g.S.box(b.T, b.Term) + ")"
		}
		return "(= " + g.S.box(a.T, a.Term) + " " + b.Term + ")"
	}
	return "(= " + a.Term + " " + b.Term + ")"
}

// ---- calls in specs: builtins and pure functions ---------------------------------------------

func (fr *Frame) evalCall(x *SCall, ctx *specCtx) SV {
	g := fr.g
	if x.Recv != nil {
		return fr.evalMethodCall(x, ctx)
	}
	arg := func(i int) SV { return fr.evalSpec(x.Args[i], ctx) }
	switch x.Fun {
	case "len":
		a := arg(0)
		switch u := a.T.Underlying().(type) {
		case *types.Slice:
			return SV{Term: g.idxToMath("(sl_len " + a.Term + ")"), K: svMath}
		case *types.Array:
			return SV{Term: g.mathConst(big.NewInt(u.Len())), K: svMath}
		case *types.Pointer:
			if at, ok := u.Elem().Underlying().(*types.Array); ok {
				return SV{Term: g.mathConst(big.NewInt(at.Len())), K: svMath}
			}
		}
		if isString(a.T) {
			return SV{Term: g.idxToMath("(str_len " + a.Term + ")"), K: svMath}
		}
		fail("spec: len of %s", a.T)
	case "cap":
		a := arg(0)
		return SV{Term: g.idxToMath("(sl_cap " + a.Term + ")"), K: svMath}
	case "Z":
		return SV{Term: g.asMath(arg(0)), K: svMath}
	case "sign":
		m := g.asMath(arg(0))
		z := g.mathConst(bigZero)
		return SV{Term: ite(g.mathBin("<", m, z), g.mathConst(big.NewInt(-1)), ite(g.mathBin(">", m, z), g.mathConst(bigOne), z)), K: svMath}
	case "abs":
		m := g.asMath(arg(0))
		return SV{Term: ite(g.mathBin("<", m, g.mathConst(bigZero)), g.mathNeg(m), m), K: svMath}
	case "dyn":
		fail("spec: dyn(e) must be compared with a type")
	case "isNaN":
		return SV{Term: "(fp.isNaN " + arg(0).Term + ")", K: svBool}
	case "isInf":
		return SV{Term: "(fp.isInfinite " + arg(0).Term + ")", K: svBool}
	case "fintegral": // float value is a (finite) integer
		f := arg(0).Term
		return SV{Term: and(not("(fp.isNaN "+f+")"), not("(fp.isInfinite "+f+")"), "(fp.eq (fp.roundToIntegral RTZ "+f+") "+f+")"), K: svBool}
	case "fdenotes": // fdenotes(f, n): finite float f denotes exactly integer n (n any Go integer / math)
		f := arg(0)
		n := arg(1)
		return SV{Term: g.fdenotes(f, n), K: svBool}
	case "f64": // f64(n): nearest float64 of integer n, or exact widening of a float32
		n := arg(0)
		if n.K == svGo {
			if fb, ok := isFloat(n.T); ok {
				if fb == 64 {
					return n
				}
				return goSV(Val{T: types.Typ[types.Float64], S: "((_ to_fp 11 53) RNE " + n.Term + ")"})
			}
		}
		return goSV(Val{T: types.Typ[types.Float64], S: g.intToFloat(n, 64)})
	case "fsame": // identical floats (NaN is identical to NaN)
		return SV{Term: "(= " + arg(0).Term + " " + arg(1).Term + ")", K: svBool}
	case "strnum":
		g.needStrNum = true
		return SV{Term: "(str_num " + arg(0).Term + ")", K: svMath}
	case "strfloat":
		g.needStrNum = true
		return goSV(Val{T: types.Typ[types.Float64], S: "(str_float " + arg(0).Term + ")"})
	case "at": // at(k, e): the value of e at the head of the current iteration of loop k (only inside loop k)
		if len(x.Args) != 2 {
			fail("spec: at(k, e)")
		}
		k, ok := x.Args[0].(*SInt)
		if !ok {
			fail("spec: at(k, e): k must be a loop number")
		}
		for _, li := range ctx.fr.loops {
			if fmt.Sprint(li.ord) == k.Val {
				if li.hdrSt == nil {
					fail("spec: at(%s, ...) used outside loop %s", k.Val, k.Val)
				}
				n := *ctx
				n.st = li.hdrSt
				return fr.evalSpec(x.Args[1], &n)
			}
		}
		fail("spec: at(): no loop %s", k.Val)
	case "before": // before(k, e): the value of e when loop k was entered (inside loop k and after it)
		if len(x.Args) != 2 {
			fail("spec: before(k, e)")
		}
		k, ok := x.Args[0].(*SInt)
		if !ok {
			fail("spec: before(k, e): k must be a loop number")
		}
		for _, li := range ctx.fr.loops {
			if fmt.Sprint(li.ord) == k.Val {
				if li.preSt == nil {
					fail("spec: before(%s, ...) used before loop %s is entered", k.Val, k.Val)
				}
				n := *ctx
				n.st = li.preSt
				return fr.evalSpec(x.Args[1], &n)
			}
		}
		fail("spec: before(): no loop %s", k.Val)
	case "wraps": // wraps(err, target): errors.Is(err, target) by the %w chain
		g.needWraps = true
		return SV{Term: "(err_wraps " + arg(0).Term + " " + arg(1).Term + ")", K: svBool}
	case "backing": // backing(s): the identity of the backing array of slice s (0 for a nil slice)
		a := arg(0)
		return SV{Term: refTermOf(a), K: svMath}
	case "preexisting": // preexisting(p): the object p points to existed when the function was entered (or p is nil)
		a := arg(0)
		return SV{Term: "(<= " + refTermOf(a) + " " + g.entry.heap.get(g, g.topKey()) + ")", K: svBool}
	case "solid": // solid(v): interface value that is neither nil nor a nil pointer in an interface
		a := arg(0)
		if !isIface(a.T) {
			return SV{Term: "(not (= " + a.Term + " 0))", K: svBool}
		}
		g.S.needSolid = true
		return SV{Term: "(iface_solid " + a.Term + ")", K: svBool}
	case "rematch": // rematch(re *regexp.Regexp, s string): the regular expression matches
		g.needReMatch = true
		return SV{Term: "(re_match " + arg(0).Term + " " + arg(1).Term + ")", K: svBool}
	case "strcmp":
		return SV{Term: g.strCompare(arg(0).Term, arg(1).Term), K: svMath}
	case "bytes": // bytes(b): view []byte as string
		b := arg(0)
		return goSV(Val{T: types.Typ[types.String], S: g.bytesAsStr(ctx.st, Val{T: b.T, S: b.Term})})
	case "implements":
		fail("spec: use dyn(e) == Iface")
	case "fresh":
		// fresh(p): p was allocated during the call / function
		a := arg(0)
		if ctx.old == nil {
			fail("spec: fresh() needs an old state")
		}
		return SV{Term: "(> " + refTermOf(a) + " " + ctx.old.heap.get(g, g.topKey()) + ")", K: svBool}
	}
	// conversion to a type of the current package or a predeclared type
	if p := fr.pkgFor(ctx); p != nil {
		if tn, ok := p.Scope().Lookup(x.Fun).(*types.TypeName); ok {
			return fr.specConv(tn.Type(), x, ctx)
		}
	}
	if tn, ok := types.Universe.Lookup(x.Fun).(*types.TypeName); ok && x.Fun != "error" {
		return fr.specConv(tn.Type(), x, ctx)
	}
	if p := fr.pkgFor(ctx); p != nil {
		if _, ok := p.Scope().Lookup(x.Fun).(*types.Func); ok && g.P.specs.Pures[p.Name()+"."+x.Fun] == nil {
			return fr.specGoCall(p.Name()+"."+x.Fun, x, ctx)
		}
	}
	// user pure function
	pkg := fr.ctxPkg(ctx)
	pf := g.P.specs.Pures[pkg+"."+x.Fun]
	if pf == nil {
		for k, p := range g.P.specs.Pures {
			if strings.HasSuffix(k, "."+x.Fun) {
				pf = p
			}
		}
	}
	if pf == nil {
		fail("spec: unknown function %s", x.Fun)
	}
	if len(x.Args) != len(pf.Params) {
		fail("spec: %s expects %d arguments", x.Fun, len(pf.Params))
	}
	if pf.Macro {
		if pf.Body == nil {
			fail("spec: macro %s has no body", pf.Name)
		}
		mc := *ctx
		mc.bound = map[string]SV{}
		mc.pkg = pf.Pkg
		mc.call = nil
		mc.kind = ctxPure
		var lets []string
		for i, p := range pf.Params {
			a := arg(i)
			// coerce to the declared parameter type
			if p.T.Kind == "name" && p.T.Pkg == "" && p.T.Name == "int" {
				a = SV{Term: g.asMath(a), K: svMath}
			} else if a.Nil {
				tt := g.resolveType(p.T, pf.Pkg)
				a = SV{Term: g.S.zero(tt), K: svGo, T: tt}
			} else if a.T != nil && !isIface(a.T) && a.K != svMath {
				if tt := g.resolveType(p.T, pf.Pkg); isIface(tt) {
					a = SV{Term: g.S.box(a.T, a.Term), K: svGo, T: tt}
				}
			}
			// share large argument terms through a let-binding instead of duplicating them
			if len(a.Term) > 40 && a.A == nil {
				ln := g.fresh("mv")
				lets = append(lets, "("+ln+" "+a.Term+")")
				a.Term = ln
			}
			mc.bound[p.Name] = a
		}
		r := fr.evalSpec(pf.Body, &mc)
		if len(lets) > 0 {
			r.Term = "(let (" + strings.Join(lets, " ") + ") " + r.Term + ")"
		}
		if pf.Ret.Kind == "name" && pf.Ret.Pkg == "" && pf.Ret.Name == "int" {
			if len(lets) > 0 && r.K != svMath {
				// convert inside the let
				r.Term = g.asMath(r)
				r.K = svMath
			}
			return SV{Term: g.asMath(r), K: svMath}
		}
		return r
	}
	name := g.declarePure(pf)
	if g.pureHeap[pf.Pkg+"."+pf.Name] && ctx.st != nil && g.entry != nil && !ctx.assumed && ctx.kind != ctxCallPost && ctx.kind != ctxPre {
		if d := ctx.st.heap.dirtyFor(g.pureKeys[pf.Pkg+"."+pf.Name]); d != "" && d != "false" {
			// the function is defined over the entry heap: its use here is only meaningful if the heap is unchanged
			// (on the objects that existed at entry, for the fields the function reads)
			var fs []string
			top0 := g.entry.heap.get(g, g.topKey())
			for _, k := range g.pureKeys[pf.Pkg+"."+pf.Name] {
				if strings.HasPrefix(k, "G:") || !ctx.st.heap.maybeDirty(k) {
					continue
				}
				cur, old := ctx.st.heap.get(g, k), g.entry.heap.get(g, k)
				if cur == old {
					continue
				}
				r := g.fresh("fr")
				if !declaredHeapName(cur) {
					fs = append(fs, "(forall (("+r+" Int)) (=> (<= "+r+" "+top0+") (= (select "+cur+" "+r+") (select "+old+" "+r+"))))")
				} else {
					fs = append(fs, "(forall (("+r+" Int)) (! (=> (<= "+r+" "+top0+") (= (select "+cur+" "+r+") (select "+old+" "+r+"))) :pattern ((select "+cur+" "+r+"))))")
				}
			}
			g.oblige("heapframe", pf.Name, ctx.oblPath(), implies(d, and(fs...)), "opaque specification function "+pf.Name+" is used where the heap must still equal the entry heap")
		}
	}
	var args []string
	for i := range x.Args {
		args = append(args, g.coerce(arg(i), pf.Params[i].T, pf.Pkg))
	}
	if g.pureHeap[pf.Pkg+"."+pf.Name] && ctx.st != nil && g.entry != nil && g.noHoist == 0 && g.topFrame != nil && !ctx.assumed && ctx.kind != ctxCallPost && ctx.kind != ctxPre {
		// the function is defined over the entry heap: its pointer arguments must denote objects that existed at entry
		top0 := g.entry.heap.get(g, g.topKey())
		for i, p := range pf.Params {
			if p.T.Kind == "ptr" {
				g.oblige("heapframe", pf.Name+".arg", ctx.oblPath(), "(<= "+args[i]+" "+top0+")", "argument "+p.Name+" of the entry-heap specification function "+pf.Name+" must not be a freshly allocated object")
			}
		}
	}
	term := name
	if len(args) > 0 {
		term = "(" + name + " " + strings.Join(args, " ") + ")"
	}
	res := g.specSV(term, pf.Ret, pf.Pkg)
	if pf.Body == nil && g.noHoist == 0 && g.entry != nil {
		// an uninterpreted accessor abstraction yields an object that existed at function entry
		top0 := g.entry.heap.get(g, g.topKey())
		if pf.Ret.Kind == "ptr" {
			g.assume("(<= " + term + " " + top0 + ")")
		} else if res.K == svGo && res.T != nil {
			switch res.T.Underlying().(type) {
			case *types.Interface:
				g.S.needRef = true
				g.assume("(<= (iface_ref " + term + ") " + top0 + ")")
			case *types.Slice:
				g.assume("(<= (sl_ref " + term + ") " + top0 + ")")
			}
		}
	}
	return res
}

// evalMethodCall: x.M(args) in a spec — only accessor-like library methods, evaluated by inlining.
// specConv: T(x) conversion between integer types / to a named type with the same underlying type.
func (fr *Frame) specConv(tt types.Type, x *SCall, ctx *specCtx) SV {
	g := fr.g
	if len(x.Args) != 1 {
		fail("spec: conversion takes one argument")
	}
	a := fr.evalSpec(x.Args[0], ctx)
	if _, _, ok := intInfo(tt); ok && isIntLike(a) {
		return goSV(Val{T: tt, S: g.fromMath(g.asMath(a), tt)})
	}
	if isIface(tt) {
		if a.T != nil && !isIface(a.T) {
			return SV{Term: g.S.box(a.T, a.Term), K: svGo, T: tt}
		}
		return SV{Term: a.Term, K: svGo, T: tt}
	}
	if a.T != nil && g.S.sortOf(a.T) == g.S.sortOf(tt) {
		return goSV(Val{T: tt, S: a.Term})
	}
	fail("spec: unsupported conversion to %s", tt)
	return SV{}
}

// specGoCall: a side-effect free library function used inside a specification, evaluated by inlining its body.
func (fr *Frame) specGoCall(key string, x *SCall, ctx *specCtx) SV {
	g := fr.g
	fn := g.P.funcs[key]
	if fn == nil || !g.inlinable(fn, fr) {
		fail("spec: function %s cannot be used in a specification (not inlinable)", key)
	}
	var args []Val
	for i, a := range x.Args {
		v := fr.evalSpec(a, ctx)
		pt := fn.Signature.Params().At(i).Type()
		if isIface(pt) && v.T != nil && !isIface(v.T) {
			args = append(args, Val{T: pt, S: g.S.box(v.T, v.Term)})
		} else if v.K == svMath {
			args = append(args, Val{T: pt, S: g.fromMath(v.Term, pt)})
		} else {
			args = append(args, Val{T: pt, S: v.Term, A: v.A})
		}
	}
	tmp := &State{cells: map[*Cell]string{}, heap: ctx.st.heap.clone(), path: "true"}
	save := fr.nopanic
	fr.nopanic = false
	defer func() { fr.nopanic = save }()
	sig := fn.Signature
	var resT types.Type = sig.Results()
	if sig.Results().Len() == 1 {
		resT = sig.Results().At(0).Type()
	}
	return goSV(fr.inline(tmp, fn, args, nil, resT))
}

func (fr *Frame) evalMethodCall(x *SCall, ctx *specCtx) SV {
	g := fr.g
	if id, ok := x.Recv.(*SIdent); ok {
		if _, bound := ctx.bound[id.Name]; !bound && !fr.isValueName(id.Name, ctx) {
			if p := g.lookupPkg(id.Name, fr.pkgFor(ctx)); p != nil {
				if tn, ok := p.Scope().Lookup(x.Fun).(*types.TypeName); ok {
					return fr.specConv(tn.Type(), x, ctx)
				}
				if _, ok := p.Scope().Lookup(x.Fun).(*types.Func); ok {
					return fr.specGoCall(p.Name()+"."+x.Fun, x, ctx)
				}
			}
		}
	}
	recv := fr.evalSpec(x.Recv, ctx)
	if recv.K != svGo {
		fail("spec: method call on non-Go value")
	}
	var args []Val
	for _, a := range x.Args {
		v := fr.evalSpec(a, ctx)
		args = append(args, Val{T: v.T, S: v.Term})
	}
	rv := Val{T: recv.T, S: recv.Term, A: recv.A}
	tmp := &State{cells: map[*Cell]string{}, heap: ctx.st.heap.clone(), path: "true"}
	save := fr.nopanic
	fr.nopanic = false
	defer func() { fr.nopanic = save }()
	if isIface(recv.T) {
		iface := recv.T.Underlying().(*types.Interface)
		for i := 0; i < iface.NumMethods(); i++ {
			if iface.Method(i).Name() == x.Fun {
				m := iface.Method(i)
				cc := &ssa.CallCommon{Value: nil, Method: m}
				_ = cc
				sig := m.Type().(*types.Signature)
				var resT types.Type = sig.Results()
				if sig.Results().Len() == 1 {
					resT = sig.Results().At(0).Type()
				}
				res := fr.invokeByName(tmp, recv.T, m, rv, args, resT)
				return goSV(res)
			}
		}
		fail("spec: interface %s has no method %s", recv.T, x.Fun)
	}
	m := g.P.methodOf(recv.T, x.Fun, nil)
	if m == nil {
		if _, ok := recv.T.Underlying().(*types.Pointer); !ok {
			m = g.P.methodOf(types.NewPointer(recv.T), x.Fun, nil)
		}
	}
	if m == nil {
		fail("spec: no method %s on %s", x.Fun, recv.T)
	}
	sig := m.Signature
	var resT types.Type = sig.Results()
	if sig.Results().Len() == 1 {
		resT = sig.Results().At(0).Type()
	}
	if !g.inlinable(m, fr) {
		fail("spec: method %s is not inlinable", m)
	}
	res := fr.inline(tmp, m, append([]Val{rv}, args...), nil, resT)
	return goSV(res)
}

// invokeByName dispatches an interface method in a spec over library implementers (inlined).
func (fr *Frame) invokeByName(st *State, it types.Type, m *types.Func, recv Val, args []Val, resT types.Type) Val {
	g := fr.g
	iface := it.Underlying().(*types.Interface)
	var impls []types.Type
	for _, t := range g.P.concrete {
		if types.Implements(t, iface) {
			impls = append(impls, t)
		} else if pt := types.NewPointer(t); types.Implements(pt, iface) {
			impls = append(impls, pt)
		}
	}
	expr := g.havocVal("specinv", resT).S
	for i := len(impls) - 1; i >= 0; i-- {
		t := impls[i]
		fn := g.P.methodOf(t, m.Name(), m.Pkg())
		if fn == nil || !g.inlinable(fn, fr) {
			continue
		}
		sub := &State{cells: map[*Cell]string{}, heap: st.heap.clone(), path: "true"}
		rv := Val{T: t, S: g.S.unbox(t, recv.S)}
		res := fr.inline(sub, fn, append([]Val{rv}, args...), nil, resT)
		expr = ite(g.S.isDyn(t, recv.S), res.S, expr)
	}
	return Val{T: resT, S: g.define("sinv", g.S.sortOf(resT), expr)}
}

// declarePure emits the SMT declaration of a pure spec function (once) and returns its SMT name.
func (g *Gen) declarePure(pf *PureFunc) string {
	name := "sf_" + sanitize(pf.Pkg+"_"+pf.Name)
	key := pf.Pkg + "." + pf.Name
	if g.pureDone[key] {
		return name
	}
	g.pureDone[key] = true
	var sorts, binders []string
	fr := g.newFrame(nil, 0)
	ctx := &specCtx{fr: fr, kind: ctxPure, pkg: pf.Pkg, bound: map[string]SV{}, st: g.pureState()}
	for _, p := range pf.Params {
		s := g.specSort(p.T, pf.Pkg)
		sorts = append(sorts, s)
		pn := "a_" + p.Name
		binders = append(binders, "("+pn+" "+s+")")
		ctx.bound[p.Name] = g.specSV(pn, p.T, pf.Pkg)
	}
	ret := g.specSort(pf.Ret, pf.Pkg)
	if len(pf.Params) > 0 {
		g.noHoist++
		defer func() { g.noHoist-- }()
	}
	if pf.Body == nil {
		g.pureDecls = append(g.pureDecls, fmt.Sprintf("(declare-fun %s (%s) %s)", name, strings.Join(sorts, " "), ret))
		g.emitAxiomsFor(pf)
		return name
	}
	if pf.Opaque {
		// uninterpreted + triggered defining axiom; the body is evaluated on the entry heap
		g.pureDecls = append(g.pureDecls, fmt.Sprintf("(declare-fun %s (%s) %s)", name, strings.Join(sorts, " "), ret))
		var trig []string
		ctx.trig = &trig
		body := g.coerce(fr.evalSpec(pf.Body, ctx), pf.Ret, pf.Pkg)
		var anames []string
		for _, p := range pf.Params {
			anames = append(anames, "a_"+p.Name)
		}
		app := "(" + name + " " + strings.Join(anames, " ") + ")"
		pats := " :pattern (" + app + ")"
		seen := map[string]bool{}
		for _, t := range trig {
			all := true
			for _, an := range anames {
				_ = an
			}
			if all && !seen[t] && !strings.Contains(t, "q_") && g.goodPatternDeep(t, 0) {
				// usable only if it mentions every parameter that is not determined otherwise: keep those mentioning the last (index) parameter
				if len(anames) > 0 && strings.Contains(t, anames[len(anames)-1]) {
					seen[t] = true
					// a multi-pattern completes missing variables with the application itself is not possible; require all params
					ok := true
					for _, an := range anames {
						if !strings.Contains(t, an) {
							ok = false
						}
					}
					if ok {
						pats += " :pattern (" + t + ")"
					}
				}
			}
		}
		// the axiom refers to entry-heap constants declared in the script body: emit it there
		g.emit(fmt.Sprintf("(assert (forall (%s) (! (= %s %s)%s)))", strings.Join(binders, " "), app, body, pats))
		if reHeapConst.MatchString(body) {
			g.pureHeap[key] = true
			g.recordPureKeys(key, body)
			g.note("opaque specification function " + pf.Name + " is defined over the entry heap; each use carries a heap-unchanged obligation")
		}
		g.emitAxiomsFor(pf)
		return name
	}
	if specCalls(pf.Body, pf.Name) {
		// recursive: uninterpreted + defining axiom (the body may read the entry heap, so the axiom lives in the script body)
		g.pureDecls = append(g.pureDecls, fmt.Sprintf("(declare-fun %s (%s) %s)", name, strings.Join(sorts, " "), ret))
		body := g.coerce(fr.evalSpec(pf.Body, ctx), pf.Ret, pf.Pkg)
		var anames []string
		for _, p := range pf.Params {
			anames = append(anames, "a_"+p.Name)
		}
		app := "(" + name + " " + strings.Join(anames, " ") + ")"
		g.emit(fmt.Sprintf("(assert (forall (%s) (! (= %s %s) :pattern (%s))))", strings.Join(binders, " "), app, body, app))
		if reHeapConst.MatchString(body) {
			g.pureHeap[key] = true
			g.recordPureKeys(key, body)
			g.note("recursive specification function " + pf.Name + " is defined over the entry heap")
		}
		g.emitAxiomsFor(pf)
		return name
	}
	// the body may emit helper lines (string constants...) into g.lines; those are global declarations, fine.
	body := g.coerce(fr.evalSpec(pf.Body, ctx), pf.Ret, pf.Pkg)
	if len(binders) == 0 {
		g.pureDecls = append(g.pureDecls, fmt.Sprintf("(define-fun %s () %s %s)", name, ret, body))
	} else {
		g.pureDecls = append(g.pureDecls, fmt.Sprintf("(define-fun %s (%s) %s %s)", name, strings.Join(binders, " "), ret, body))
	}
	return name
}

// pureState: pure functions must not read the heap; give them an empty state that fails on heap access.
func (g *Gen) pureState() *State {
	if g.entry != nil {
		return g.entry
	}
	return &State{cells: map[*Cell]string{}, heap: g.newRootHeap(), path: "true"}
}

func specCalls(e SExpr, name string) bool {
	found := false
	var walk func(e SExpr)
	walk = func(e SExpr) {
		switch x := e.(type) {
		case *SCall:
			if x.Fun == name && x.Recv == nil {
				found = true
			}
			if x.Recv != nil {
				walk(x.Recv)
			}
			for _, a := range x.Args {
				walk(a)
			}
		case *SUnary:
			walk(x.X)
		case *SBinary:
			walk(x.X)
			walk(x.Y)
		case *SCond:
			walk(x.C)
			walk(x.A)
			walk(x.B)
		case *SQuant:
			walk(x.Body)
		case *SIndex:
			walk(x.X)
			walk(x.I)
		case *SSel:
			walk(x.X)
		case *SAssert:
			walk(x.X)
		case *SDynEq:
			walk(x.X)
		case *SOld:
			walk(x.X)
		case *SSlice:
			walk(x.X)
		}
	}
	walk(e)
	return found
}

// ---- float helpers ------------------------------------------------------------------------------

// intToFloat: nearest float of an integer-valued spec value.
func (g *Gen) intToFloat(n SV, bits int) string {
	es, sb := 11, 53
	if bits == 32 {
		es, sb = 8, 24
	}
	if g.mode == ModeInt {
		g.needI2F = true
		return fmt.Sprintf("(i2f%d %s)", bits, g.asMath(n))
	}
	return fmt.Sprintf("((_ to_fp %d %d) RNE %s)", es, sb, g.asMath(n)) // signed 128-bit
}

// fdenotes(f, n): f is finite, integral, and equals n exactly.
func (g *Gen) fdenotes(f SV, n SV) string {
	fb, _ := isFloat(f.T)
	if g.mode == ModeInt {
		return and(not("(fp.isNaN "+f.Term+")"), not("(fp.isInfinite "+f.Term+")"), "(= (fp.to_real "+f.Term+") (to_real "+g.asMath(n)+"))")
	}
	// bv: |f| < 2^127, integral, and to_sbv_128(f) == n
	m := g.asMath(n)
	lim := fpLit(170141183460469231731687303715884105728.0, fb) // 2^127
	return and(not("(fp.isNaN "+f.Term+")"), not("(fp.isInfinite "+f.Term+")"),
		"(fp.lt (fp.abs "+f.Term+") "+lim+")",
		"(fp.eq (fp.roundToIntegral RTZ "+f.Term+") "+f.Term+")",
		"(= ((_ fp.to_sbv 128) RTZ "+f.Term+") "+m+")")
}

func is64(t types.Type) bool {
	b, _, ok := intInfo(t)
	return ok && b == 64
}

// goodPattern: SMT patterns may not contain boolean connectives / ite.
func (g *Gen) goodPatternDeep(t string, depth int) bool {
	if !goodPattern(t) {
		return false
	}
	if depth > 6 {
		return false
	}
	// names introduced by define-fun are macros: their bodies become part of the pattern
	for _, m := range reDefName.FindAllString(t, -1) {
		if body, ok := g.defs[m]; ok {
			if !g.goodPatternDeep(body, depth+1) {
				return false
			}
		}
	}
	return true
}

var reDefName = regexp.MustCompile(`[A-Za-z][A-Za-z0-9_]*_\d+`)

func goodPattern(t string) bool {
	for _, bad := range []string{"(not ", "(and ", "(or ", "(ite ", "(=> ", "(= ", "(<= ", "(< "} {
		if strings.Contains(t, bad) {
			return false
		}
	}
	return true
}


var reHeapConst = regexp.MustCompile(`\bh\d+_|\bhm_\d+|\bhe_\d+|\bhf_\d+|\bhp_\d+|\blhp_\d+`)

// emitAxiomsFor emits (once) every user axiom that mentions the given specification function.
// Axioms are trusted statements (listed in the evidence); they are evaluated on the entry heap.
func (g *Gen) emitAxiomsFor(pf *PureFunc) {
	for _, ax := range g.P.specs.Axioms {
		if g.axiomDone[ax.Name] || !specCalls(ax.Expr, pf.Name) {
			continue
		}
		g.axiomDone[ax.Name] = true
		fr := g.newFrame(nil, 0)
		ctx := &specCtx{fr: fr, kind: ctxPure, pkg: ax.Pkg, bound: map[string]SV{}, st: g.pureState()}
		t := fr.evalBool(ax.Expr, ctx)
		g.emit("(assert " + t + ")")
		g.note("trusted axiom " + ax.Pkg + "." + ax.Name + ": " + ax.Text)
	}
}

var reHeapName = regexp.MustCompile(`\bh\d+_[A-Za-z0-9_]+`)

// recordPureKeys: which heap keys does the body of a specification function read (directly or through other
// heap-reading specification functions)? A term that mentions a non-root heap value makes it depend on everything.
func (g *Gen) recordPureKeys(key, body string) {
	if g.pureKeys == nil {
		g.pureKeys = map[string][]string{}
	}
	seen := map[string]bool{}
	all := false
	for _, n := range reHeapName.FindAllString(body, -1) {
		if k, ok := g.constKey[n]; ok {
			seen[k] = true
		}
	}
	if regexp.MustCompile(`\bhm_\d+|\bhe_\d+|\bhf_\d+|\bhp_\d+|\blhp_\d+`).MatchString(body) {
		all = true
	}
	// calls to other heap-reading functions
	for other, ks := range g.pureKeys {
		name := "sf_" + sanitize(strings.Replace(other, ".", "_", 1))
		if strings.Contains(body, "("+name+" ") {
			for _, k := range ks {
				seen[k] = true
			}
		}
	}
	var ks []string
	for k := range seen {
		ks = append(ks, k)
	}
	if all {
		ks = append(ks, "*all*")
	}
	sortStrings(ks)
	g.pureKeys[key] = ks
}
