package main

import (
	"os/exec"
	"context"
	"bytes"
	"encoding/json"
	"fmt"
	"os"
	"path/filepath"
	"regexp"
	"sort"
	"strings"
	"time"
)

func runCheck(P *Program, verif, prop, tier string, seed int, verbose bool, t0 time.Time) int {
	var results []*FuncResult
	var keys []string
	verifDir = verif
	coverReturns = true
	for k, c := range P.contracts {
		if hasProp(c.Props, prop) && !c.NoVerify {
			keys = append(keys, k)
		}
	}
	sort.Strings(keys)
	known := loadKnownFindings(filepath.Join(verif, "known_findings.json"))
	for _, k := range keys {
		con := P.contracts[k]
		con.Known = known.forFunc(prop, k)
		results = append(results, P.verifyFunction(con))
	}
	for _, l := range P.specs.Lemmas {
		if hasProp(l.Props, prop) {
			results = append(results, P.verifyLemma(l))
		}
	}
	var obls []*Obligation
	var engineErrs []string
	notes := map[string]bool{}
	var fnames []string
	modes := map[string]string{}
	base := loadBaseline(filepath.Join(verif, "baseline", prop+".json"))
	var undecidedFns []*FuncResult
	for _, r := range results {
		if r.Err != "" {
			// a function that used to be verified (it has obligations in the committed baseline) can no longer be
			// translated or its contract no longer applies to it: the property is not established for the changed code
			inBase := false
			for _, b := range base {
				if strings.HasPrefix(b, r.Key+"#") {
					inBase = true
				}
			}
			if inBase {
				undecidedFns = append(undecidedFns, r)
			} else {
				engineErrs = append(engineErrs, r.Key+": "+r.Err)
			}
			continue
		}
		fnames = append(fnames, r.Key)
		modes[r.Key] = r.Mode
		obls = append(obls, r.Obls...)
		for _, n := range r.Notes {
			notes[n] = true
		}
	}
	tmp, _ := os.MkdirTemp("", "govc-"+prop+"-")
	defer os.RemoveAll(tmp)
	timeout := 45 * time.Second
	if tier == "thorough" {
		timeout = 120 * time.Second
	}
	for _, o := range obls {
		if known.match(prop, o.Name) != nil {
			o.noRetry = true // expected to fail: recorded finding
		}
	}
	tGen := time.Since(t0).Seconds()
	dischargeAll(obls, tmp, timeout, tier, 7)
	tSolve := time.Since(t0).Seconds() - tGen
	defer func() {
		if os.Getenv("GOVC_TIMING") != "" {
			fmt.Fprintf(os.Stderr, "timing: load+generate %.1fs, discharge %.1fs, rest %.1fs\n", tGen, tSolve, time.Since(t0).Seconds()-tGen-tSolve)
		}
	}()

	// verdicts
	replayDir := filepath.Join(verif, "replays", prop)
	violations := 0
	knownHits := map[string]bool{}
	var undecided []string
	nObl, nDis, nCover, nCoverOK := 0, 0, 0, 0
	perSolver := map[string]int{}
	solverSecs := 0.0
	var samples []map[string]interface{}
	var failed []*Obligation
	var deadReturns []string
	for _, o := range obls {
		solverSecs += o.Secs
		if o.ExpectSat {
			nCover++
			if o.Status == "discharged" {
				nCoverOK++
			} else if strings.HasSuffix(o.Name, "#cover:pre") {
				engineErrs = append(engineErrs, "vacuity: the preconditions of "+o.Fn+" are unsatisfiable")
			} else {
				deadReturns = append(deadReturns, o.Name)
			}
			continue
		}
		nObl++
		if o.Status == "discharged" {
			nDis++
			perSolver[strings.TrimSuffix(o.Solver, " (grouped)")]++
			if len(samples) < 6 && o.Solver != "trivial" {
				samples = append(samples, map[string]interface{}{"obligation": o.Name, "kind": o.Kind, "clause": o.Clause, "smt_bytes": o.SmtBytes, "solver": o.Solver, "secs": round3(o.Secs), "integer_mode": o.Mode})
			}
			continue
		}
		if o.Status == "engine-error" {
			engineErrs = append(engineErrs, "solver "+o.Answer+" on "+o.Name+": "+firstLines(o.Model, 2))
			continue
		}
		failed = append(failed, o)
	}
	// failed obligations: known finding? else violation (replays run in parallel)
	var viol []*Obligation
	for _, o := range failed {
		kf := known.match(prop, o.Name)
		if kf != nil {
			ok, detail := P.recheckKnown(kf, o, tmp, timeout)
			if ok {
				o.KnownHit = kf.Witness
				knownHits[fmt.Sprintf("KNOWN-FINDING: property=%s %s %s", prop, o.Name, kf.Witness)] = true
				continue
			}
			o.Model += "\n" + detail
		}
		viol = append(viol, o)
	}
	paths := writeReplays(P, replayDir, prop, viol)
	for i, o := range viol {
		violations++
		suffix := ""
		if !o.replayed {
			suffix = " no-failing-input-found"
		}
		fmt.Printf("VIOLATION property=%s replay=%s obligation=%s answer=%s%s\n", prop, paths[i], o.Name, o.Answer, suffix)
	}
	// bounded stand-ins (labelled bounded, reported separately, never counted among the proof obligations)
	bounded := P.runBounded(verif, prop, tier, replayDir)
	for _, b := range bounded {
		if b.Failed {
			violations++
			fmt.Printf("VIOLATION property=%s replay=%s obligation=%s answer=bounded-check-failed\n", prop, b.Replay, b.Name)
		}
	}
	var kh []string
	for k := range knownHits {
		kh = append(kh, k)
	}
	sort.Strings(kh)
	for _, k := range kh {
		fmt.Println(k)
	}
	// functions whose verification conditions can no longer be generated
	for _, r := range undecidedFns {
		violations++
		os.MkdirAll(replayDir, 0o755)
		path := filepath.Join(replayDir, sanitize(r.Key)+"_not_verifiable.json")
		rf := &ReplayFile{Property: prop, Obligation: r.Key + "#*", Kind: "not-verifiable", Function: r.Key,
			Clause: "every obligation of this function in the committed baseline", Answer: "not-generated", SolverOut: firstLines(r.Err, 6)}
		b, _ := json.MarshalIndent(rf, "", " ")
		os.WriteFile(path, append(b, '\n'), 0o644)
		fmt.Printf("VIOLATION property=%s replay=%s obligation=%s#* answer=not-verifiable (%s) no-failing-input-found\n", prop, path, r.Key, firstLines(r.Err, 1))
	}
	// baseline: obligations that used to exist but were not generated => UNDECIDED
	have := map[string]bool{}
	for _, o := range obls {
		have[o.Name] = true
	}
	undecFn := map[string]bool{}
	for _, r := range undecidedFns {
		undecFn[r.Key] = true
	}
	for _, b := range base {
		if i := strings.Index(b, "#"); i > 0 && undecFn[b[:i]] {
			continue
		}
		if !have[b] {
			undecided = append(undecided, b)
			fmt.Printf("UNDECIDED property=%s obligation=%s reason=not-generated\n", prop, b)
		}
	}
	// vacuity guard: a return that no path reaches means a contradictory contract (or dead code); the ones known
	// to be dead code are listed in unreachable_ok.json
	okDead := map[string]bool{}
	if b, err := os.ReadFile(filepath.Join(verif, "unreachable_ok.json")); err == nil {
		var l []string
		if json.Unmarshal(b, &l) == nil {
			for _, n := range l {
				okDead[n] = true
			}
		}
	}
	var newDead []string
	for _, d := range deadReturns {
		if !okDead[d] {
			newDead = append(newDead, d)
			fmt.Printf("WARNING property=%s vacuity-suspect: no path reaches %s\n", prop, d)
		}
	}
	for _, e := range engineErrs {
		fmt.Printf("ENGINE-ERROR property=%s %s\n", prop, e)
	}
	var assumptions []string
	for n := range notes {
		assumptions = append(assumptions, n)
	}
	sort.Strings(assumptions)
	assumptions = append([]string{
		"go/packages + go/ssa (x/tools v0.29.0) build the same IR the compiler would; VC generator govc (tested by the must-fail corpus)",
		"amd64: int/uint are 64 bit; no goroutines, unsafe or cgo in verified functions; allocation never fails; stack depth unbounded",
		"panics inside callees are not propagated as control flow: every panic site of a contracted function is its own safety obligation",
	}, assumptions...)
	if len(samples) == 0 {
		samples = append(samples, map[string]interface{}{"note": "no non-trivial obligation discharged"})
	}
	ev := Evidence{PropertyID: prop, Tier: tier, Seed: seed, Level: "proof", WallS: round3(time.Since(t0).Seconds()), Violations: violations,
		Assumptions: assumptions,
		Coverage: map[string]interface{}{
			"obligations":              nObl,
			"discharged":               nDis + len(knownHitsObls(failed)),
			"discharged_by_solver":     nDis,
			"known_findings":           kh,
			"checker_cmd":              "govc check --property " + prop + " --tier " + tier + " (solvers: z3-new 5.1.0, cvc5 1.0.3, z3 4.8.12 raced per obligation)",
			"trusted_base":             []string{"golang.org/x/tools v0.29.0 go/ssa", "govc VC generator", "z3 5.1.0", "cvc5 1.0.3", "z3 4.8.12"},
			"functions_under_contract": fnames,
			"integer_mode":             modes,
			"per_backend":              perSolver,
			"solver_secs":              round3(solverSecs),
			"load_secs":                round3(P.loadSecs),
			"cover_checks":             nCover,
			"cover_sat":                nCoverOK,
			"undecided":                undecided,
			"unreachable_returns":      deadReturns,
			"unreachable_returns_new":  newDead,
			"bounded_checks":           bounded,
			"engine_errors":            engineErrs,
			"samples":                  samples,
		}}
	os.MkdirAll(filepath.Join(verif, "evidence"), 0o755)
	b, _ := json.MarshalIndent(ev, "", " ")
	if os.Getenv("GOVC_NOEVIDENCE") == "" { // the seed / self-test scripts run against patched trees: they must not leave their runs behind as evidence
		os.WriteFile(filepath.Join(verif, "evidence", prop+".json"), append(b, '\n'), 0o644)
	}
	// detailed obligation log next to the evidence (not the evidence file itself)
	if verbose {
		for _, o := range obls {
			fmt.Printf("%-12s %-70s %-8s %-10s %.2fs\n", o.Status, o.Name, o.Answer, o.Solver, o.Secs)
		}
	}
	if writeBaseline {
		var names []string
		for _, o := range obls {
			if !o.ExpectSat && (o.Status == "discharged" || o.KnownHit != "") {
				names = append(names, o.Name)
			}
		}
		sort.Strings(names)
		os.MkdirAll(filepath.Join(verif, "baseline"), 0o755)
		bb, _ := json.MarshalIndent(names, "", " ")
		os.WriteFile(filepath.Join(verif, "baseline", prop+".json"), append(bb, '\n'), 0o644)
	}
	fmt.Printf("property=%s tier=%s functions=%d obligations=%d discharged=%d known=%d violations=%d covers=%d/%d wall=%.1fs\n",
		prop, tier, len(fnames), nObl, nDis, len(kh), violations, nCoverOK, nCover, time.Since(t0).Seconds())
	if len(engineErrs) > 0 {
		return 2
	}
	if violations > 0 {
		return 1
	}
	if nObl == 0 {
		fmt.Printf("ENGINE-ERROR property=%s no obligations generated\n", prop)
		return 2
	}
	return 0
}

func knownHitsObls(failed []*Obligation) []*Obligation {
	var out []*Obligation
	for _, o := range failed {
		if o.KnownHit != "" {
			out = append(out, o)
		}
	}
	return out
}

func round3(f float64) float64 { return float64(int(f*1000+0.5)) / 1000 }

func loadBaseline(path string) []string {
	b, err := os.ReadFile(path)
	if err != nil {
		return nil
	}
	var out []string
	json.Unmarshal(b, &out)
	return out
}

// ---- known findings ---------------------------------------------------------------------------

type KnownFinding struct {
	Property   string `json:"property"`
	Obligation string `json:"obligation"` // exact name or prefix ending in '*'
	Region     string `json:"region"`     // spec expression over the function's parameters ("" = site-only finding)
	Witness    string `json:"witness"`
	Status     string `json:"status"` // open | fixed
	Note       string `json:"note,omitempty"`
	// WitnessTest: a Go test (path relative to /verif, external or in-package test of package Pkg) that FAILS
	// on the real code while the defect is present.
	WitnessTest string `json:"witness_test,omitempty"`
	WitnessPkg  string `json:"witness_pkg,omitempty"`
	WitnessRun  string `json:"witness_run,omitempty"`
}

type KnownFile struct {
	Findings []KnownFinding `json:"findings"`
	Fixed    []string       `json:"fixed"`
}

func loadKnownFindings(path string) *KnownFile {
	kf := &KnownFile{}
	b, err := os.ReadFile(path)
	if err != nil {
		return kf
	}
	if err := json.Unmarshal(b, kf); err != nil {
		fmt.Fprintln(os.Stderr, "known_findings.json:", err)
	}
	return kf
}

func (k *KnownFile) match(prop, obl string) *KnownFinding {
	for i := range k.Findings {
		f := &k.Findings[i]
		if f.Property != prop || f.Status == "fixed" {
			continue
		}
		if f.Obligation == obl {
			return f
		}
		if strings.HasSuffix(f.Obligation, "*") && strings.HasPrefix(obl, strings.TrimSuffix(f.Obligation, "*")) {
			return f
		}
	}
	return nil
}

func (k *KnownFile) forFunc(prop, fn string) []KnownRegion {
	var out []KnownRegion
	for _, f := range k.Findings {
		if f.Property == prop && f.Status != "fixed" && strings.HasPrefix(f.Obligation, fn+"#") {
			out = append(out, KnownRegion{Obligation: f.Obligation, Region: f.Region, Witness: f.Witness})
		}
	}
	return out
}

// recheckKnown re-verifies the obligation outside the recorded region: a failure there is a different violation.
func (P *Program) recheckKnown(kf *KnownFinding, o *Obligation, dir string, timeout time.Duration) (bool, string) {
	if kf.WitnessTest != "" {
		if ok, detail := P.runWitness(kf); !ok {
			return false, detail
		}
	}
	if kf.Region == "" {
		return true, ""
	}
	if o.regionScript == "" {
		return false, "known finding has a region but the obligation carries no region script"
	}
	r := solve(o.regionScript, dir, o.Name+"_outside_region", timeout, nil, false)
	if r.answer == "unsat" {
		return true, ""
	}
	return false, "outside the recorded known-finding region the obligation still fails: " + r.answer + "\n" + r.output
}

// ---- models -----------------------------------------------------------------------------------

var reDefine = regexp.MustCompile(`\(define-fun\s+(\S+)\s+\(\)\s+`)

// parseModel extracts constant definitions "name -> value text" from a solver model.
func parseModel(out string) map[string]string {
	res := map[string]string{}
	// get-value format: ((term value) (term value) ...)
	if i := strings.Index(out, "(("); i >= 0 && !strings.Contains(out, "(define-fun") {
		if tree, err := parseSx(out[i:]); err == nil {
			for _, pair := range tree.list {
				if len(pair.list) == 2 {
					res[pair.list[0].String()] = pair.list[1].String()
				}
			}
		}
		return res
	}
	idx := reDefine.FindAllStringSubmatchIndex(out, -1)
	for _, m := range idx {
		name := out[m[2]:m[3]]
		// skip sort: balanced s-expr or atom
		p := m[1]
		p = skipSexpr(out, p)
		for p < len(out) && (out[p] == ' ' || out[p] == '\n') {
			p++
		}
		q := skipSexpr(out, p)
		if q > p {
			res[name] = strings.Join(strings.Fields(out[p:q]), " ")
		}
	}
	return res
}

func skipSexpr(s string, p int) int {
	for p < len(s) && (s[p] == ' ' || s[p] == '\n') {
		p++
	}
	if p >= len(s) {
		return p
	}
	if s[p] != '(' {
		for p < len(s) && s[p] != ' ' && s[p] != '\n' && s[p] != ')' {
			p++
		}
		return p
	}
	d := 0
	for p < len(s) {
		if s[p] == '(' {
			d++
		} else if s[p] == ')' {
			d--
			if d == 0 {
				return p + 1
			}
		}
		p++
	}
	return p
}

var witnessCache = map[string]string{}

// runWitness replays the recorded witness of a known finding on the real code; true if it still fails there.
func (P *Program) runWitness(kf *KnownFinding) (bool, string) {
	key := kf.WitnessTest + "|" + kf.WitnessRun
	if r, ok := witnessCache[key]; ok {
		return r == "", r
	}
	src, err := os.ReadFile(filepath.Join(verifDir, kf.WitnessTest))
	if err != nil {
		witnessCache[key] = "witness test unreadable: " + err.Error()
		return false, witnessCache[key]
	}
	out, _ := runGoTestNamed(P.repo, kf.WitnessPkg, string(src), kf.WitnessRun)
	if strings.Contains(out, "--- FAIL") || strings.Contains(out, "panic:") {
		witnessCache[key] = ""
		return true, ""
	}
	witnessCache[key] = "the recorded witness no longer fails on the real code: " + firstLines(out, 4)
	return false, witnessCache[key]
}

var verifDir = "/verif"
var writeBaseline = false

// ---- bounded stand-ins ------------------------------------------------------------------------------

// BoundedSpec: an exhaustive check up to a stated bound, for a statement the contracts cannot carry. The test file is
// injected into a package of /repo with `go test -overlay` and must print "GOVC-BOUNDED <summary>" and one
// "GOVC-FAIL <input>" line per failing input.
type BoundedSpec struct {
	Property string            `json:"property"`
	Name     string            `json:"name"`
	Pkg      string            `json:"pkg"`
	File     string            `json:"file"`
	Test     string            `json:"test"`
	Bound    map[string]string `json:"bound"` // per tier: human readable bound
	Env      map[string]string `json:"env"`   // per tier: "K=V K=V"
}

type BoundedResult struct {
	Name    string   `json:"name"`
	Label   string   `json:"label"`
	Bound   string   `json:"bound"`
	Summary string   `json:"summary"`
	Failed  bool     `json:"failed"`
	Fails   []string `json:"failing_inputs,omitempty"`
	Replay  string   `json:"replay,omitempty"`
	Secs    float64  `json:"secs"`
}

func (P *Program) runBounded(verif, prop, tier, replayDir string) []BoundedResult {
	var specs []BoundedSpec
	b, err := os.ReadFile(filepath.Join(verif, "bounded", "bounded.json"))
	if err != nil || json.Unmarshal(b, &specs) != nil {
		return nil
	}
	if tier == "" {
		tier = "quick"
	}
	var out []BoundedResult
	for _, sp := range specs {
		if sp.Property != prop {
			continue
		}
		t0 := time.Now()
		src, err := os.ReadFile(filepath.Join(verif, "bounded", sp.File))
		res := BoundedResult{Name: sp.Name, Label: "bounded", Bound: sp.Bound[tier]}
		if err != nil {
			res.Failed, res.Summary = true, "test file unreadable: "+err.Error()
			out = append(out, res)
			continue
		}
		dir, _ := os.MkdirTemp("", "govc-bounded-")
		tf := filepath.Join(dir, "zz_govc_bounded_test.go")
		os.WriteFile(tf, src, 0o644)
		ov := map[string]map[string]string{"Replace": {filepath.Join(P.repo, sp.Pkg, "zz_govc_bounded_test.go"): tf}}
		ob, _ := json.Marshal(ov)
		of := filepath.Join(dir, "ov.json")
		os.WriteFile(of, ob, 0o644)
		ctx, cancel := context.WithTimeout(context.Background(), 900*time.Second)
		cmd := exec.CommandContext(ctx, "go", "test", "-overlay", of, "-vet=off", "-timeout", "800s", "-run", "^"+sp.Test+"$", "-count=1", "-v", "./"+sp.Pkg+"/")
		cmd.Dir = P.repo
		cmd.Env = append(goEnv(), strings.Fields(sp.Env[tier])...)
		var buf bytes.Buffer
		cmd.Stdout, cmd.Stderr = &buf, &buf
		runErr := cmd.Run()
		cancel()
		os.RemoveAll(dir)
		text := buf.String()
		for _, l := range strings.Split(text, "\n") {
			if i := strings.Index(l, "GOVC-FAIL "); i >= 0 {
				res.Fails = append(res.Fails, strings.TrimSpace(l[i+len("GOVC-FAIL "):]))
			}
			if i := strings.Index(l, "GOVC-BOUNDED "); i >= 0 {
				res.Summary = strings.TrimSpace(l[i+len("GOVC-BOUNDED "):])
			}
		}
		res.Secs = round3(time.Since(t0).Seconds())
		if runErr != nil || len(res.Fails) > 0 || res.Summary == "" {
			res.Failed = true
			if res.Summary == "" {
				res.Summary = "the bounded check did not run to completion: " + firstLines(text, 6)
			}
			os.MkdirAll(replayDir, 0o755)
			res.Replay = filepath.Join(replayDir, sanitize(sp.Name)+".json")
			rf := map[string]interface{}{"property": prop, "obligation": sp.Name, "kind": "bounded", "bound": res.Bound, "summary": res.Summary,
				"failing_inputs": res.Fails, "how_to_replay": "cd /repo && go test -overlay <ov.json mapping " + sp.Pkg + "/zz_govc_bounded_test.go to /verif/bounded/" + sp.File + "> -vet=off -run " + sp.Test + " ./" + sp.Pkg + "/ (env " + sp.Env[tier] + ")", "output": firstLines(text, 40)}
			jb, _ := json.MarshalIndent(rf, "", " ")
			os.WriteFile(res.Replay, append(jb, '\n'), 0o644)
		}
		out = append(out, res)
		fmt.Printf("BOUNDED property=%s %s bound=%q %s\n", prop, sp.Name, res.Bound, res.Summary)
	}
	return out
}
