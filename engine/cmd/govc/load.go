package main

import (
	"fmt"
	"go/ast"
	"go/token"
	"go/types"
	"os"
	"path/filepath"
	"sort"
	"strings"

	"golang.org/x/tools/go/packages"
	"golang.org/x/tools/go/ssa"
	"golang.org/x/tools/go/ssa/ssautil"
)

var libPkgs = []string{"val", "meta", "node", "nodeutil", "parser", "xpath", "source", "fc"}

type Program struct {
	repo  string
	pkgs  []*packages.Package
	prog  *ssa.Program
	spkgs map[string]*ssa.Package // by package name (val, meta, ...)
	tpkgs map[string]*types.Package
	funcs map[string]*ssa.Function // "val.Int8.Compare", "val.toInt8", closures "node.editor.enter$1"
	// all named (non-interface) types of library packages, for interface dispatch
	concrete  []types.Type
	globNonNil map[*ssa.Global]int // 0 unknown, 1 non-nil constant after init, 2 no
	globInit   map[*ssa.Global]*globInitInfo
	contracts map[string]*Contract // by function key
	specs     *SpecEnv
	loadSecs  float64
}

func goEnv() []string {
	env := os.Environ()
	env = append(env, "GOFLAGS=-mod=mod", "GOPROXY=off", "GOSUMDB=off", "GOTOOLCHAIN=local", "GOWORK=off")
	return env
}

func loadProgram(repo string) (*Program, error) {
	cfg := &packages.Config{
		Mode:       packages.LoadAllSyntax,
		Dir:        repo,
		Env:        goEnv(),
		BuildFlags: []string{"-tags=verif"},
	}
	var pats []string
	for _, p := range libPkgs {
		pats = append(pats, "./"+p)
	}
	pkgs, err := packages.Load(cfg, pats...)
	if err != nil {
		return nil, err
	}
	nerr := 0
	packages.Visit(pkgs, nil, func(p *packages.Package) {
		for _, e := range p.Errors {
			fmt.Fprintf(os.Stderr, "load error: %v\n", e)
			nerr++
		}
	})
	if nerr > 0 {
		return nil, fmt.Errorf("%d package load errors", nerr)
	}
	prog, spkgs := ssautil.AllPackages(pkgs, ssa.NaiveForm|ssa.InstantiateGenerics)
	prog.Build()
	P := &Program{repo: repo, pkgs: pkgs, prog: prog, spkgs: map[string]*ssa.Package{}, tpkgs: map[string]*types.Package{},
		funcs: map[string]*ssa.Function{}, contracts: map[string]*Contract{}}
	for i, sp := range spkgs {
		if sp == nil {
			continue
		}
		name := pkgs[i].Types.Name()
		P.spkgs[name] = sp
		P.tpkgs[name] = pkgs[i].Types
	}
	for fn := range ssautil.AllFunctions(prog) {
		if fn.Pkg == nil && fn.Parent() == nil {
			// may be instantiated generic / wrapper; skip synthetic
			if fn.Synthetic != "" {
				continue
			}
		}
		k := funcKey(fn)
		if k != "" {
			if _, dup := P.funcs[k]; !dup {
				P.funcs[k] = fn
			}
		}
	}
	// concrete named types
	for _, name := range libPkgs {
		tp := P.tpkgs[name]
		if tp == nil {
			continue
		}
		sc := tp.Scope()
		names := sc.Names()
		sort.Strings(names)
		for _, n := range names {
			tn, ok := sc.Lookup(n).(*types.TypeName)
			if !ok {
				continue
			}
			t := tn.Type()
			if isIface(t) {
				continue
			}
			if _, isNamed := t.(*types.Named); !isNamed {
				continue
			}
			if nt := t.(*types.Named); nt.TypeParams().Len() > 0 {
				continue
			}
			P.concrete = append(P.concrete, t)
		}
	}
	return P, nil
}

// funcKey: pkg.Func, pkg.Recv.Method, closures pkg.Recv.Method$1
func funcKey(fn *ssa.Function) string {
	if fn.Parent() != nil {
		pk := funcKey(fn.Parent())
		if pk == "" {
			return ""
		}
		name := fn.Name() // e.g. enter$1
		if i := strings.LastIndex(name, "$"); i >= 0 {
			return pk + name[i:]
		}
		return pk + "$" + name
	}
	if fn.Pkg == nil {
		// methods of instantiated or external types
		if fn.Signature.Recv() != nil {
			rt := fn.Signature.Recv().Type()
			if p, ok := rt.(*types.Pointer); ok {
				rt = p.Elem()
			}
			if n, ok := types.Unalias(rt).(*types.Named); ok && n.Obj().Pkg() != nil {
				return n.Obj().Pkg().Name() + "." + n.Obj().Name() + "." + fn.Name()
			}
		}
		return ""
	}
	pkg := fn.Pkg.Pkg.Name()
	if recv := fn.Signature.Recv(); recv != nil {
		rt := recv.Type()
		if p, ok := rt.(*types.Pointer); ok {
			rt = p.Elem()
		}
		if n, ok := types.Unalias(rt).(*types.Named); ok {
			return pkg + "." + n.Obj().Name() + "." + fn.Name()
		}
		return ""
	}
	return pkg + "." + fn.Name()
}

func (P *Program) contractFiles() []string {
	var out []string
	for _, name := range libPkgs {
		f := filepath.Join(P.repo, name, "contracts_verif.go")
		if _, err := os.Stat(f); err == nil {
			out = append(out, f)
		}
	}
	return out
}

// methodOf finds the ssa function implementing method name on concrete type t (value or pointer receiver).
func (P *Program) methodOf(t types.Type, name string, pkg *types.Package) *ssa.Function {
	ms := P.prog.MethodSets.MethodSet(t)
	for i := 0; i < ms.Len(); i++ {
		sel := ms.At(i)
		if sel.Obj().Name() == name {
			if !sel.Obj().Exported() && pkg != nil && sel.Obj().Pkg() != pkg {
				continue
			}
			return P.prog.MethodValue(sel)
		}
	}
	return nil
}

// globalNonNil: the package-level variable is assigned exactly once, in the package initialiser, with a
// value that cannot be nil (errors.New / fmt.Errorf / &T{} / a boxed value), and its address never escapes.
func (P *Program) globalNonNil(gl *ssa.Global) bool {
	if P.globNonNil == nil {
		P.globNonNil = map[*ssa.Global]int{}
	}
	if v := P.globNonNil[gl]; v != 0 {
		return v == 1
	}
	ok := false
	stores := 0
	bad := false
	for fn := range ssautil.AllFunctions(P.prog) {
		for _, b := range fn.Blocks {
			for _, in := range b.Instrs {
				for _, op := range in.Operands(nil) {
					if *op != ssa.Value(gl) {
						continue
					}
					switch x := in.(type) {
					case *ssa.UnOp:
						// load
					case *ssa.Store:
						if x.Addr != ssa.Value(gl) {
							bad = true
							continue
						}
						stores++
						if fn.Name() != "init" || fn.Pkg != gl.Pkg {
							bad = true
							continue
						}
						switch v := x.Val.(type) {
						case *ssa.Call:
							if c := v.Common().StaticCallee(); c != nil {
								n := stdName(c)
								if n == "errors.New" || n == "fmt.Errorf" {
									ok = true
									continue
								}
							}
							bad = true
						case *ssa.MakeInterface, *ssa.Alloc:
							ok = true
						default:
							bad = true
						}
					default:
						bad = true
					}
				}
			}
		}
	}
	res := ok && !bad && stores == 1
	if res {
		P.globNonNil[gl] = 1
	} else {
		P.globNonNil[gl] = 2
	}
	return res
}

// globalInit returns the initialiser expression of a package-level variable that is assigned nowhere else
// (checked syntactically over the whole program), together with the types.Info of its package.
func (P *Program) globalInit(gl *ssa.Global) (ast.Expr, *types.Info) {
	if P.globInit == nil {
		P.globInit = map[*ssa.Global]*globInitInfo{}
	}
	if gi, ok := P.globInit[gl]; ok {
		return gi.expr, gi.info
	}
	gi := &globInitInfo{}
	P.globInit[gl] = gi
	// any store outside init, or any escaping use of the address => not constant
	for fn := range ssautil.AllFunctions(P.prog) {
		for _, b := range fn.Blocks {
			for _, in := range b.Instrs {
				for _, op := range in.Operands(nil) {
					if *op != ssa.Value(gl) {
						continue
					}
					switch x := in.(type) {
					case *ssa.UnOp, *ssa.IndexAddr:
						// load / element address: element stores are checked below
						if ia, ok := in.(*ssa.IndexAddr); ok {
							if refs := ia.Referrers(); refs != nil {
								for _, r := range *refs {
									if st, isStore := r.(*ssa.Store); isStore && st.Addr == ssa.Value(ia) && fn.Name() != "init" {
										return nil, nil
									}
								}
							}
						}
					case *ssa.Store:
						if x.Addr == ssa.Value(gl) && fn.Name() == "init" && fn.Pkg == gl.Pkg {
							continue
						}
						return nil, nil
					case *ssa.Slice:
						// slicing a global array/string value: read-only in this code base
					default:
						_ = x
						return nil, nil
					}
				}
			}
		}
	}
	for _, pkg := range P.pkgs {
		if pkg.Types != gl.Pkg.Pkg {
			continue
		}
		for _, f := range pkg.Syntax {
			for _, d := range f.Decls {
				gd, ok := d.(*ast.GenDecl)
				if !ok || gd.Tok != token.VAR {
					continue
				}
				for _, sp := range gd.Specs {
					vs := sp.(*ast.ValueSpec)
					for i, n := range vs.Names {
						if n.Name == gl.Name() && i < len(vs.Values) {
							gi.expr, gi.info = vs.Values[i], pkg.TypesInfo
							return gi.expr, gi.info
						}
					}
				}
			}
		}
	}
	return nil, nil
}

type globInitInfo struct {
	expr ast.Expr
	info *types.Info
}
