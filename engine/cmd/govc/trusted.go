package main

// Trusted specifications of standard-library functions (DESIGN.md section 9.2).
// Every use is recorded in the evidence as an assumption.

import (
	"go/types"
	"strings"

	"golang.org/x/tools/go/ssa"
)

// bytesAsStr views a byte slice as a string value over the current heap.
func (g *Gen) bytesAsStr(st *State, sl Val) string {
	t := sl.T.Underlying().(*types.Slice)
	key, _ := g.elemKey(t.Elem())
	return "(mk_str (select " + st.heap.get(g, key) + " (sl_ref " + sl.S + ")) (sl_off " + sl.S + ") (sl_len " + sl.S + "))"
}

// strCompare: three-way byte-lexicographic comparison as a math integer in {-1,0,1}.
func (g *Gen) strCompare(a, b string) string {
	g.needStrCmp = true
	return "(str_cmp " + a + " " + b + ")"
}

func (g *Gen) strCmpDecls() string {
	m := g.mathSort()
	c := func(v int64) string { return g.mathConst(bigOf(v)) }
	lt := func(a, b string) string { return g.mathBin("<", a, b) }
	var b strings.Builder
	b.WriteString("(declare-fun str_cmp (Str Str) " + m + ")\n")
	// total preorder on strings whose equivalence is str_eq; values in {-1,0,1}
	b.WriteString("(assert (forall ((a Str) (b Str)) (! (or (= (str_cmp a b) " + c(-1) + ") (= (str_cmp a b) " + c(0) + ") (= (str_cmp a b) " + c(1) + ")) :pattern ((str_cmp a b)))))\n")
	b.WriteString("(assert (forall ((a Str)) (! (= (str_cmp a a) " + c(0) + ") :pattern ((str_cmp a a)))))\n")
	b.WriteString("(assert (forall ((a Str) (b Str)) (! (= (str_cmp a b) " + g.mathNeg("(str_cmp b a)") + ") :pattern ((str_cmp a b)))))\n")
	b.WriteString("(assert (forall ((a Str) (b Str) (c Str)) (! (=> (and " + not(lt(c(0), "(str_cmp a b)")) + " " + not(lt(c(0), "(str_cmp b c)")) + ") " + not(lt(c(0), "(str_cmp a c)")) + ") :pattern ((str_cmp a b) (str_cmp b c)))))\n")
	b.WriteString("(assert (forall ((a Str) (b Str) (c Str)) (! (=> (and (= (str_cmp a b) " + c(0) + ") (= (str_cmp b c) " + c(0) + ")) (= (str_cmp a c) " + c(0) + ")) :pattern ((str_cmp a b) (str_cmp b c)))))\n")
	b.WriteString("(assert (forall ((a Str) (b Str) (c Str)) (! (=> (and " + lt("(str_cmp a b)", c(0)) + " " + not(lt(c(0), "(str_cmp b c)")) + ") " + lt("(str_cmp a c)", c(0)) + ") :pattern ((str_cmp a b) (str_cmp b c)))))\n")
	b.WriteString("(assert (forall ((a Str) (b Str) (c Str)) (! (=> (and " + not(lt(c(0), "(str_cmp a b)")) + " " + lt("(str_cmp b c)", c(0)) + ") " + lt("(str_cmp a c)", c(0)) + ") :pattern ((str_cmp a b) (str_cmp b c)))))\n")
	return b.String()
}

func (g *Gen) mathNeg(a string) string {
	if g.mode == ModeInt {
		return "(- " + a + ")"
	}
	return "(bvneg " + a + ")"
}

func bigOf(v int64) *bigInt { return new(bigInt).SetInt64(v) }

func (g *Gen) nonNilError(prefix string) Val {
	r := g.declare(prefix, "Iface")
	g.assume("(not ((_ is iface_nil) " + r + "))")
	return Val{T: types.Universe.Lookup("error").Type(), S: r}
}

// trustedCall applies a built-in trusted specification; ok=false if none exists for fn.
func (fr *Frame) trustedCall(st *State, fn *ssa.Function, args []Val, resT types.Type) (Val, bool) {
	g := fr.g
	name := stdName(fn)
	intT := types.Typ[types.Int]
	mathToInt := func(m string) string { return g.fromMath(m, intT) }
	switch name {
	case "strings.Compare":
		g.note("trusted: strings.Compare is the three-way byte-lexicographic order (uninterpreted total order str_cmp)")
		return Val{T: intT, S: g.define("scmp", g.S.sortOf(intT), mathToInt(g.strCompare(args[0].S, args[1].S)))}, true
	case "bytes.Compare":
		g.note("trusted: bytes.Compare is the three-way byte-lexicographic order (uninterpreted total order str_cmp)")
		return Val{T: intT, S: g.define("bcmp", g.S.sortOf(intT), mathToInt(g.strCompare(g.bytesAsStr(st, args[0]), g.bytesAsStr(st, args[1]))))}, true
	case "fmt.Errorf", "errors.New":
		g.note("trusted: " + name + " returns a non-nil error; with a constant format, the result wraps the argument of every %w verb")
		r := g.nonNilError("err")
		if name == "fmt.Errorf" && len(args) >= 2 {
			if lit, ok := g.litOf(args[0].S); ok {
				if va, ok := fr.varargs[args[1].S]; ok {
					ai := 0
					for i := 0; i+1 < len(lit); i++ {
						if lit[i] != '%' {
							continue
						}
						j := i + 1
						for j < len(lit) && strings.ContainsRune("+-# 0123456789.", rune(lit[j])) {
							j++
						}
						if j >= len(lit) {
							break
						}
						if lit[j] == '%' {
							i = j
							continue
						}
						if lit[j] == 'w' && ai < len(va) && isIface(va[ai].T) {
							g.needWraps = true
							g.assume("(err_wraps " + r.S + " " + va[ai].S + ")")
						}
						ai++
						i = j
					}
				}
			}
		}
		return r, true
	case "fmt.Sprintf", "fmt.Sprint", "strconv.Itoa", "strconv.FormatInt", "strconv.FormatUint", "strconv.FormatFloat", "strconv.Quote", "strings.ToLower", "strings.Join", "strings.Repeat", "strings.Replace", "strings.ReplaceAll":
		g.note("trusted: " + name + " returns some string (contents unconstrained)")
		return g.havocVal("str", types.Typ[types.String]), true
	case "math.IsNaN":
		return Val{T: types.Typ[types.Bool], S: "(fp.isNaN " + args[0].S + ")"}, true
	case "math.IsInf":
		// sign argument: >0 +inf, <0 -inf, 0 either
		s := args[1].S
		z := g.S.intConst(0, 64)
		pos := and("(fp.isInfinite "+args[0].S+")", "(fp.isPositive "+args[0].S+")")
		neg := and("(fp.isInfinite "+args[0].S+")", "(fp.isNegative "+args[0].S+")")
		r := ite(g.intCmp(">", s, z, intT), pos, ite(g.intCmp("<", s, z, intT), neg, "(fp.isInfinite "+args[0].S+")"))
		return Val{T: types.Typ[types.Bool], S: g.define("isinf", "Bool", r)}, true
	case "math.Trunc":
		return Val{T: types.Typ[types.Float64], S: "(fp.roundToIntegral RTZ " + args[0].S + ")"}, true
	case "math.Floor":
		return Val{T: types.Typ[types.Float64], S: "(fp.roundToIntegral RTN " + args[0].S + ")"}, true
	case "math.Abs":
		return Val{T: types.Typ[types.Float64], S: "(fp.abs " + args[0].S + ")"}, true
	case "strconv.ParseInt", "strconv.ParseUint":
		// (value, error): nil error => value is the numeral's value and lies in the bitSize range
		g.note("trusted: " + name + " with nil error returns the value of the numeral, within the bitSize range (spec function strnum)")
		g.needStrNum = true
		tup := resT.(*types.Tuple)
		v := g.havocVal("parsed", tup.At(0).Type())
		e := g.declare("perr", "Iface")
		ok := "((_ is iface_nil) " + e + ")"
		m := g.toMath(v.S, tup.At(0).Type())
		g.assume(implies(ok, "(= "+m+" (str_num "+args[0].S+"))"))
		// bitSize bound when constant
		if bs, isC := g.constOfArg(args[2]); isC && bs > 0 && bs < 64 {
			lo, hi := intBounds(int(bs), name == "strconv.ParseInt")
			g.assume(implies(ok, and(g.mathBin("<=", g.mathConst(lo), m), g.mathBin("<=", m, g.mathConst(hi)))))
		}
		g.assume(implies(not(ok), "(= "+v.S+" "+g.S.zero(tup.At(0).Type())+")"))
		return Val{T: resT, Tup: []Val{v, {T: tup.At(1).Type(), S: e}}}, true
	case "strconv.Atoi":
		g.note("trusted: strconv.Atoi with nil error returns the value of the numeral (spec function strnum)")
		g.needStrNum = true
		tup := resT.(*types.Tuple)
		v := g.havocVal("parsed", tup.At(0).Type())
		e := g.declare("perr", "Iface")
		ok := "((_ is iface_nil) " + e + ")"
		g.assume(implies(ok, "(= "+g.toMath(v.S, tup.At(0).Type())+" (str_num "+args[0].S+"))"))
		return Val{T: resT, Tup: []Val{v, {T: tup.At(1).Type(), S: e}}}, true
	case "strconv.ParseFloat":
		g.note("trusted: strconv.ParseFloat with nil error returns the float nearest to the numeral (spec function strfloat)")
		g.needStrNum = true
		tup := resT.(*types.Tuple)
		v := g.havocVal("parsedf", tup.At(0).Type())
		e := g.declare("perr", "Iface")
		ok := "((_ is iface_nil) " + e + ")"
		g.assume(implies(ok, "(= "+v.S+" (str_float "+args[0].S+"))"))
		return Val{T: resT, Tup: []Val{v, {T: tup.At(1).Type(), S: e}}}, true
	case "strings.HasPrefix":
		if lit, ok := g.litOf(args[1].S); ok {
			s := args[0].S
			cs := []string{g.idxLe(g.idxConst(int64(len(lit))), "(str_len "+s+")")}
			for i := 0; i < len(lit); i++ {
				cs = append(cs, "(= "+g.strAt(s, g.idxConst(int64(i)))+" "+g.byteConst(lit[i])+")")
			}
			return Val{T: types.Typ[types.Bool], S: g.define("hp", "Bool", and(cs...))}, true
		}
		// symbolic prefix: only the length fact
		g.note("trusted: strings.HasPrefix(s, p) implies len(p) <= len(s)")
		r := g.declare("hasprefix", "Bool")
		g.assume(implies(r, g.idxLe("(str_len "+args[1].S+")", "(str_len "+args[0].S+")")))
		return Val{T: types.Typ[types.Bool], S: r}, true
	case "unicode/utf8.DecodeRuneInString":
		g.note("trusted: utf8.DecodeRuneInString returns (RuneError,0) on empty input, else 1 <= size <= min(4,len); ASCII bytes decode to themselves with size 1; the bytes of a longer encoding are all >= 0x80")
		tup := resT.(*types.Tuple)
		s := args[0].S
		r := g.havocVal("rune", tup.At(0).Type())
		sz := g.havocVal("rsz", tup.At(1).Type())
		ln := "(str_len " + s + ")"
		z := g.idxConst(0)
		empty := "(= " + ln + " " + z + ")"
		szI := g.toIdx(sz.S, intT)
		rT := tup.At(0).Type()
		g.assume(implies(empty, and("(= "+szI+" "+z+")", "(= "+r.S+" "+g.S.intConst(0xFFFD, 32)+")")))
		g.assume(implies(not(empty), and(g.idxLe(g.idxConst(1), szI), g.idxLe(szI, g.idxConst(4)), g.idxLe(szI, ln))))
		b0 := g.strAt(s, z)
		ascii := g.intCmp("<", b0, g.byteConst(0x80), types.Typ[types.Uint8])
		var b0r string
		if g.mode == ModeBV {
			b0r = "((_ zero_extend 24) " + b0 + ")"
		} else {
			b0r = b0
		}
		g.assume(implies(and(not(empty), ascii), and("(= "+szI+" "+g.idxConst(1)+")", "(= "+r.S+" "+b0r+")")))
		g.assume(implies(and(not(empty), not(ascii)), and(g.intCmp(">=", r.S, g.S.intConst(0x80, 32), rT), g.intCmp("<=", r.S, g.S.intConst(0x10FFFF, 32), rT))))
		// a multi-byte encoding consists of non-ASCII bytes only
		for k := 1; k <= 3; k++ {
			bk := g.strAt(s, g.idxConst(int64(k)))
			g.assume(implies(and(not(empty), g.idxLt(g.idxConst(int64(k)), szI)), g.intCmp(">=", bk, g.byteConst(0x80), types.Typ[types.Uint8])))
		}
		return Val{T: resT, Tup: []Val{r, sz}}, true
	case "unicode.IsSpace", "unicode.IsDigit", "unicode.IsLetter":
		g.note("trusted: " + name + " is an uninterpreted predicate on runes, exact on ASCII")
		fnm := "uni_" + strings.ToLower(fn.Name())
		g.needUni[fnm] = true
		return Val{T: types.Typ[types.Bool], S: "(" + fnm + " " + args[0].S + ")"}, true
	case "strings.IndexRune", "strings.IndexByte", "strings.Index", "strings.IndexAny", "strings.LastIndex":
		g.note("trusted: " + name + " returns -1 or an index below len(s)")
		v := g.havocVal("idx", intT)
		g.assume(and(g.intCmp(">=", v.S, g.S.intConst(-1, 64), intT), g.intCmp("<", v.S, "(str_len "+args[0].S+")", intT)))
		return v, true
	case "strings.TrimSpace", "strings.Trim", "strings.TrimLeft", "strings.TrimRight", "strings.TrimPrefix", "strings.TrimSuffix":
		g.note("trusted: " + name + " returns a substring of its argument")
		s := args[0].S
		a := g.declare("trA", g.idxSort())
		b := g.declare("trB", g.idxSort())
		g.assume(and(g.idxLe(g.idxConst(0), a), g.idxLe(a, b), g.idxLe(b, "(str_len "+s+")")))
		return Val{T: types.Typ[types.String], S: g.define("trim", "Str", "(mk_str (str_arr "+s+") "+g.idxAdd("(str_off "+s+")", a)+" "+g.idxSub(b, a)+")")}, true
	case "strings.Split", "strings.SplitN", "strings.Fields":
		g.note("trusted: " + name + " returns a fresh slice of strings (at least one element for Split with a non-empty separator)")
		ref := g.allocRef(st)
		r := g.declare("split", "Slice")
		g.assume(and("(= (sl_ref "+r+") "+ref+")", "(= (sl_off "+r+") "+g.idxConst(0)+")", g.typeRange(r, resT)))
		if name != "strings.Fields" {
			g.assume(g.idxLe(g.idxConst(1), "(sl_len "+r+")"))
		}
		return Val{T: resT, S: r}, true
	case "regexp.(*Regexp).MatchString":
		g.note("trusted: (*regexp.Regexp).MatchString is a deterministic predicate of (regexp, string) (uninterpreted re_match)")
		g.needReMatch = true
		return Val{T: types.Typ[types.Bool], S: "(re_match " + args[0].S + " " + args[1].S + ")"}, true
	case "strings.ContainsRune":
		if c, isC := g.constOfArg(args[1]); isC && c >= 0 && c < 0x80 {
			g.note("trusted: strings.ContainsRune(s, c) for an ASCII constant c is true exactly when some byte of s equals c")
			p := g.declare("hasrune", "Bool")
			w := g.declare("runeat", g.idxSort())
			s := args[0].S
			ln := "(str_len " + s + ")"
			bc := g.byteConst(byte(c))
			g.assume(implies(p, and(g.idxLe(g.idxConst(0), w), g.idxLt(w, ln), "(= "+g.strAt(s, w)+" "+bc+")")))
			k := g.fresh("hk")
			g.assume(implies(not(p), "(forall (("+k+" "+g.idxSort()+")) (=> "+and(g.idxLe(g.idxConst(0), k), g.idxLt(k, ln))+" (not (= "+g.strAt(s, k)+" "+bc+"))))"))
			return Val{T: types.Typ[types.Bool], S: p}, true
		}
		g.note("trusted: " + name + " is a pure predicate (result unconstrained)")
		return g.havocVal("pred", types.Typ[types.Bool]), true
	case "strings.Contains", "strings.HasSuffix", "strings.EqualFold", "errors.Is":
		g.note("trusted: " + name + " is a pure predicate (result unconstrained)")
		return g.havocVal("pred", types.Typ[types.Bool]), true
	}
	return Val{}, false
}

func (g *Gen) byteConst(b byte) string { return g.S.intConst(int64(b), 8) }

func (g *Gen) litOf(term string) (string, bool) {
	if term == "str_empty" {
		return "", true
	}
	for lit, n := range g.strConsts {
		if n == term {
			return lit, true
		}
	}
	return "", false
}

func (g *Gen) constOfArg(v Val) (int64, bool) {
	if g.mode == ModeInt {
		if b, ok := isConstTerm(v.S); ok {
			return b.Int64(), true
		}
		return 0, false
	}
	if strings.HasPrefix(v.S, "#x") {
		var n int64
		for _, c := range v.S[2:] {
			n <<= 4
			switch {
			case c >= '0' && c <= '9':
				n |= int64(c - '0')
			case c >= 'a' && c <= 'f':
				n |= int64(c-'a') + 10
			}
		}
		return n, true
	}
	return 0, false
}

func (g *Gen) trustedDecls() string {
	var b strings.Builder
	if g.needI2F {
		b.WriteString("(declare-fun i2f64 (Int) (_ FloatingPoint 11 53))\n(declare-fun i2f32 (Int) (_ FloatingPoint 8 24))\n")
	}
	if g.needWraps {
		b.WriteString("(declare-fun err_wraps (Iface Iface) Bool)\n(assert (forall ((e Iface)) (! (err_wraps e e) :pattern ((err_wraps e e)))))\n")
		b.WriteString("(assert (forall ((a Iface) (b Iface) (c Iface)) (! (=> (and (err_wraps a b) (err_wraps b c)) (err_wraps a c)) :pattern ((err_wraps a b) (err_wraps b c)))))\n")
	}
	if g.needReMatch {
		b.WriteString("(declare-fun re_match (Int Str) Bool)\n")
	}
	if g.needStrEq {
		b.WriteString("(declare-fun str_eq (Str Str) Bool)\n")
	}
	if g.needStrCmp {
		b.WriteString(g.strCmpDecls())
	}
	if g.needStrNum {
		b.WriteString("(declare-fun str_num (Str) " + g.mathSort() + ")\n")
		b.WriteString("(declare-fun str_float (Str) (_ FloatingPoint 11 53))\n")
	}
	for _, n := range sortedKeysS(g.elemFns) {
		es := g.elemFns[n]
		ix := g.idxSort()
		b.WriteString("(declare-fun " + n + " ((Array " + ix + " " + es + ") " + ix + " " + ix + ") " + es + ")\n")
		b.WriteString("(assert (forall ((a (Array " + ix + " " + es + ")) (o " + ix + ") (k " + ix + ")) (! (= (" + n + " a o k) (select a " + g.idxAdd("o", "k") + ")) :pattern ((" + n + " a o k)))))\n")
	}
	runeS := g.S.sortOf(types.Typ[types.Int32])
	for _, n := range sortedKeys(g.needUni) {
		b.WriteString("(declare-fun " + n + " (" + runeS + ") Bool)\n")
		c := func(ch rune) string { return g.S.intConst(int64(ch), 32) }
		switch n {
		case "uni_isspace":
			for _, ch := range []rune{' ', '\t', '\n', '\r', '\v', '\f'} {
				b.WriteString("(assert (" + n + " " + c(ch) + "))\n")
			}
			b.WriteString("(assert (not (" + n + " " + c(0) + ")))\n")
			// no other ASCII rune is a space
			k := "kk"
			asc := and(g.intCmp(">=", k, c(0), types.Typ[types.Int32]), g.intCmp("<", k, c(0x80), types.Typ[types.Int32]))
			isws := or("(= "+k+" "+c(' ')+")", and(g.intCmp(">=", k, c('\t'), types.Typ[types.Int32]), g.intCmp("<=", k, c('\r'), types.Typ[types.Int32])))
			b.WriteString("(assert (forall ((kk " + runeS + ")) (! (=> " + asc + " (= (" + n + " kk) " + isws + ")) :pattern ((" + n + " kk)))))\n")
		case "uni_isdigit":
			k := "kk"
			asc := and(g.intCmp(">=", k, c(0), types.Typ[types.Int32]), g.intCmp("<", k, c(0x80), types.Typ[types.Int32]))
			isd := and(g.intCmp(">=", k, c('0'), types.Typ[types.Int32]), g.intCmp("<=", k, c('9'), types.Typ[types.Int32]))
			b.WriteString("(assert (forall ((kk " + runeS + ")) (! (=> " + asc + " (= (" + n + " kk) " + isd + ")) :pattern ((" + n + " kk)))))\n")
		case "uni_isletter":
			k := "kk"
			asc := and(g.intCmp(">=", k, c(0), types.Typ[types.Int32]), g.intCmp("<", k, c(0x80), types.Typ[types.Int32]))
			isl := or(and(g.intCmp(">=", k, c('a'), types.Typ[types.Int32]), g.intCmp("<=", k, c('z'), types.Typ[types.Int32])),
				and(g.intCmp(">=", k, c('A'), types.Typ[types.Int32]), g.intCmp("<=", k, c('Z'), types.Typ[types.Int32])))
			b.WriteString("(assert (forall ((kk " + runeS + ")) (! (=> " + asc + " (= (" + n + " kk) " + isl + ")) :pattern ((" + n + " kk)))))\n")
		}
	}
	return b.String()
}

func sortedKeysS(m map[string]string) []string {
	var out []string
	for k := range m {
		out = append(out, k)
	}
	sortStrings(out)
	return out
}

func sortedKeys(m map[string]bool) []string {
	var out []string
	for k := range m {
		out = append(out, k)
	}
	sortStrings(out)
	return out
}
